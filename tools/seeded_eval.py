#!/usr/bin/env python3
"""Evaluate one seeded change: confirm it (tests still pass, demo fails with it and passes without), then run the
property's check against a scratch worktree with the change applied. Usage: seeded_eval.py <seeded-id> [check ids...]"""
import json, os, subprocess, sys, shutil, time
sid = sys.argv[1]
checks = sys.argv[2:] or [sid.split('-')[0]]
sdir = f'/verif/seeded/{sid}'
wt = f'/tmp/wt-eval-{sid}'
subprocess.run(['git', '-C', '/repo', 'worktree', 'remove', '--force', wt], capture_output=True)
subprocess.run(['git', '-C', '/repo', 'worktree', 'add', '-q', wt, 'HEAD'], check=True)
res = {'id': sid, 'checks': {}}
try:
    env = dict(os.environ, PYTHONPATH=f'{wt}/src')
    p = subprocess.run(['/venv/bin/python', f'{sdir}/demo.py'], capture_output=True, text=True, env=env, cwd=wt)
    res['demo_without'] = p.returncode
    a = subprocess.run(['git', '-C', wt, 'apply', f'{sdir}/patch.diff'], capture_output=True, text=True)
    res['applies'] = a.returncode == 0
    if not res['applies']:
        res['apply_error'] = a.stderr[-500:]
    else:
        p = subprocess.run(['/venv/bin/python', f'{sdir}/demo.py'], capture_output=True, text=True, env=env, cwd=wt)
        res['demo_with'] = p.returncode
        res['demo_output'] = (p.stdout + p.stderr)[-400:]
        t = subprocess.run(f'cd {wt} && PYTHONPATH={wt}/src /venv/bin/python -m pytest -q -p no:cacheprovider 2>&1 | tail -1', shell=True, capture_output=True, text=True)
        res['tests'] = t.stdout.strip()
        for c in checks:
            t0 = time.time()
            q = subprocess.run(['./check', c, '--tier', 'quick'], capture_output=True, text=True, cwd='/verif',
                               env=dict(os.environ, PYVC_REPO=wt))
            lines = [l for l in q.stdout.splitlines() if l.startswith(('VIOLATION', 'KNOWN', 'UNDECIDED', 'CHECKER')) or l.startswith('  obligation')]
            res['checks'][c] = {'exit': q.returncode, 'secs': round(time.time() - t0, 1), 'lines': lines[:12], 'summary': q.stdout.strip().splitlines()[-1:] }
finally:
    subprocess.run(['git', '-C', '/repo', 'worktree', 'remove', '--force', wt], capture_output=True)
os.makedirs('/verif/seeded/results', exist_ok=True)
json.dump(res, open(f'/verif/seeded/results/{sid}.json', 'w'), indent=1)
print(json.dumps(res)[:1500])
