#!/usr/bin/env python3
"""Prints the markdown table of seeded changes and what the checks said (from seeded/results/*.json)."""
import glob, json, os
rows = []
for d in sorted(glob.glob('/verif/seeded/C*-*')):
    sid = os.path.basename(d)
    meta = json.load(open(os.path.join(d, 'meta.json')))
    res = {}
    rp = f'/verif/seeded/results/{sid}.json'
    if os.path.exists(rp):
        res = json.load(open(rp))
    verdicts = []
    for c, v in res.get('checks', {}).items():
        code = {0: 'MISSED (exit 0)', 1: 'caught (VIOLATION)', 2: 'flagged undecided (exit 2)', 3: 'checker error (exit 3)'}.get(v['exit'], str(v['exit']))
        ob = next((l.strip().split(' in ')[0].replace('obligation ', '') for l in v['lines'] if l.strip().startswith('obligation')), '')
        verdicts.append(f'{c}: {code}' + (f' — `{ob}`' if ob and v['exit'] == 1 else ''))
    rows.append(f"| {sid} | {meta.get('summary', '')[:150].replace('|', '/')} | {'; '.join(verdicts) or 'not run'} |")
print('| seeded change | what it does | result of the property\'s quick check |')
print('|---|---|---|')
print('\n'.join(rows))
