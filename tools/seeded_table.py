#!/usr/bin/env python3
"""Prints the markdown table of seeded changes and what the checks said (from seeded/results/*.json)."""
import glob, json, os
rows = []
for d in sorted(glob.glob('/verif/seeded/C*-*')):
    sid = os.path.basename(d)
    meta = json.load(open(os.path.join(d, 'meta.json')))
    res = {}
    rp = f'/verif/seeded/results/{sid}.json'
    if os.path.exists(rp):
        res = json.load(open(rp))
    verdicts = []
    for c, v in res.get('checks', {}).items():
        code = {0: 'MISSED (exit 0)', 1: 'caught (VIOLATION)', 2: 'flagged undecided (exit 2)', 3: 'checker error (exit 3)'}.get(v['exit'], str(v['exit']))
        ob = next((l.strip().split(' in ')[0].replace('obligation ', '') for l in v['lines'] if l.strip().startswith('obligation')), '')
        if v['exit'] == 0 and res.get('demo_with') == 0:
            code = 'exit 0 — and the demo passes too: on the current tree (after the fix: commits) this change no longer breaks the property'
        if v['exit'] == 1 and not any('no-failing-input-found' not in l for l in v['lines'] if l.startswith('VIOLATION')):
            code = 'caught (VIOLATION, no-failing-input-found)'
        verdicts.append(f'{c}: {code}' + (f' — `{ob}`' if ob and v['exit'] == 1 else ''))
    rows.append(f"| {sid} | {meta.get('summary', '')[:150].replace('|', '/')} | {'; '.join(verdicts) or 'not run'} |")
table = '| seeded change | what it does | result of the property\'s quick check |\n|---|---|---|\n' + '\n'.join(rows)
import sys
if '--write' in sys.argv:
    import re
    p = '/verif/DESIGN.md'
    s = open(p).read()
    s = re.sub(r'<!-- SEEDED_TABLE_BEGIN -->.*?<!-- SEEDED_TABLE_END -->', lambda m: '<!-- SEEDED_TABLE_BEGIN -->\n' + table + '\n<!-- SEEDED_TABLE_END -->', s, flags=re.S)
    open(p, 'w').write(s)
else:
    print(table)
