#!/usr/bin/env python3
"""Runs the pinned test command and compares with BASELINE.json's stable_pass list."""
import json, subprocess, sys, tempfile, xml.etree.ElementTree as ET, os
repo = sys.argv[1] if len(sys.argv) > 1 else '/repo'
base = json.load(open('/root/.vp/BASELINE.json'))
with tempfile.NamedTemporaryFile(suffix='.xml', delete=False) as fh:
    path = fh.name
subprocess.run(f'cd {repo} && /venv/bin/python -m pytest -ra -q -p no:cacheprovider --timeout=900 --continue-on-collection-errors --junitxml={path} >/dev/null 2>&1', shell=True)
passed = set()
for tc in ET.parse(path).getroot().iter('testcase'):
    if not any(ch.tag in ('failure', 'error', 'skipped') for ch in tc):
        passed.add(f"{tc.get('classname')}::{tc.get('name')}")
os.unlink(path)
missing = [t for t in base['stable_pass'] if t not in passed]
print(f'stable_pass={len(base["stable_pass"])} passed_now={len(passed)} missing={len(missing)}')
for m in missing[:20]:
    print('  MISSING', m)
sys.exit(1 if missing else 0)
