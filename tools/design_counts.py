#!/usr/bin/env python3
"""Rewrites the obligation counts in the DESIGN.md section-2 table from the evidence files of the last run."""
import json, re
p = '/verif/DESIGN.md'
s = open(p).read()
known = json.load(open('/verif/known_findings.json'))
for pid in [f'C{n:02d}' for n in range(1, 21)]:
    try:
        ev = json.load(open(f'/verif/evidence/{pid}.json'))
    except OSError:
        continue
    cov = ev['coverage']
    cell = f"{cov['discharged']}/{cov['obligations']}"
    nk = len(cov.get('known_findings_matched') or [])
    if nk:
        cell += f' + {nk} known finding'
    s = re.sub(r'^\| ' + pid + r' \| [^|]* \|', f'| {pid} | {cell} |', s, count=1, flags=re.M)
open(p, 'w').write(s)
print('counts refreshed')
