import datetime
import itertools
from bare_script.library import SCRIPT_FUNCTIONS
from bare_script.value import value_string, value_compare
bad = []
# Bounded CSV typing round trip: typed columns (number, boolean, datetime, string) of three rows with a null at every
# position (first, middle, last, none), nulls written as the literal null, are read back by dataParseCSV with the same
# typed values; text that merely resembles a date stays a string.
columns = {
    'num': [5, 7.5, -3],
    'flag': [True, False, True],
    'day': [datetime.datetime(2024, 2, 29), datetime.datetime(2024, 3, 1, 12, 30), datetime.datetime(1999, 12, 31)],
    'name': ['a', 'b c', 'zed'],
}
parse = SCRIPT_FUNCTIONS['dataParseCSV']
count = 0
for holes in itertools.product([None, 0, 1, 2], repeat=len(columns)):
    table = []
    for ix in range(3):
        row = {}
        for (field, values), hole in zip(columns.items(), holes):
            row[field] = None if hole == ix else values[ix]
        table.append(row)
    fields = list(columns)
    text = ','.join(fields) + '\n' + ''.join(
        ','.join('null' if row[f] is None else value_string(row[f]) for f in fields) + '\n' for row in table)
    count += 1
    try:
        got = parse([text], None)
    except Exception as exc:
        bad.append({'csv': text, 'observed': 'EXC ' + type(exc).__name__ + ': ' + str(exc)[:80]})
        continue
    same = isinstance(got, list) and len(got) == 3 and all(
        isinstance(g, dict) and list(g) == fields and all(type(g[f]) is type(r[f]) or (isinstance(g[f], (int, float)) and isinstance(r[f], (int, float))
                                                                                      and not isinstance(g[f], bool) and not isinstance(r[f], bool))
                                                          for f in fields)
        and all(value_compare(g[f], r[f]) == 0 for f in fields) for g, r in zip(got, table))
    if not same:
        bad.append({'csv': text, 'null_positions': list(holes), 'observed': repr(got)[:300]})
try:
    got = parse(['when,n\n2024-02-30,1\n2024-02-28,2\n'], None)
    if not (isinstance(got, list) and len(got) == 2 and got[0]['when'] == '2024-02-30'):
        bad.append({'what': 'text that merely resembles a date is kept as a string', 'observed': repr(got)[:200]})
except Exception as exc:
    bad.append({'what': 'date-like text aborted the parse', 'observed': 'EXC ' + type(exc).__name__ + ': ' + str(exc)[:80]})
result = {'violates': bool(bad), 'counterexamples': bad[:2], 'tables': count}
