from bare_script import parse_script, execute_script
bad = []
# execute_script adds the library functions to the caller's globals without overwriting any name the caller supplied —
# including a name the caller bound to null — and runs in the caller's own globals object
g = {'arrayNew': None, 'mathAbs': 'mine', 'custom': 7}
o = {'globals': g}
try:
    got = execute_script(parse_script("return arrayPush(arrayCopy(holder), systemType(arrayNew), mathAbs, custom, systemType(arrayLength))\n"),
                         {'globals': dict(g, holder=[])})
except Exception as exc:
    got = 'EXC ' + type(exc).__name__ + ': ' + str(exc)[:100]
if got != ['null', 'mine', 7, 'function']:
    bad.append({'what': 'caller-supplied globals (also one bound to null) must not be overwritten by library functions', 'observed': repr(got)})
try:
    execute_script(parse_script('zz = 1\n'), o)
except Exception as exc:
    bad.append({'what': 'run failed', 'observed': 'EXC ' + type(exc).__name__})
if o['globals'] is not g or g.get('zz') != 1 or g['arrayNew'] is not None or g['mathAbs'] != 'mine':
    bad.append({'what': "the run must use the caller's own globals object and leave supplied names alone",
                'arrayNew': repr(g.get('arrayNew')), 'mathAbs': repr(g.get('mathAbs'))})
result = {'violates': bool(bad), 'counterexamples': bad[:2]}
