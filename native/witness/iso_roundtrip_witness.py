import datetime
import os
import time
from bare_script.library import SCRIPT_FUNCTIONS
fmt, parse = SCRIPT_FUNCTIONS['datetimeISOFormat'], SCRIPT_FUNCTIONS['datetimeISOParse']
bad = []
count = 0
zones = ['UTC', 'America/New_York', 'Europe/London', 'Australia/Lord_Howe', 'Pacific/Chatham', 'Asia/Kolkata', 'Asia/Kathmandu', 'Etc/GMT+12']
have = [z for z in zones if z == 'UTC' or os.path.exists(os.path.join('/usr/share/zoneinfo', z))]
saved = os.environ.get('TZ')
try:
    for zone in have:
        os.environ['TZ'] = zone
        time.tzset()
        for year in (2001, 2024, 2040):
            for month in (1, 4, 7, 10):
                for day, hour, ms in ((1, 0, 0), (15, 12, 123), (28, 23, 999)):
                    d = datetime.datetime(year, month, day, hour, 30, 15, ms * 1000)
                    count += 1
                    try:
                        text = fmt([d], None)
                        back = parse([text], None)
                        shown = fmt([d, True], None)
                    except Exception as exc:
                        back, text, shown = 'EXC ' + type(exc).__name__ + ': ' + str(exc)[:80], None, None
                    if back != d and len(bad) < 3:
                        bad.append({'zone': zone, 'datetime': str(d), 'iso': text, 'parsed_back': str(back)})
finally:
    if saved is None:
        os.environ.pop('TZ', None)
    else:
        os.environ['TZ'] = saved
    time.tzset()
result = {'violates': bool(bad), 'checked': count, 'zones': have, 'counterexamples': bad}
