from bare_script.library import SCRIPT_FUNCTIONS
bad = []
# systemPartial(func, a1..an): every call of the returned function hands the target a new list a1..an ++ extra and the
# options of that call, and returns the target's result. The target below normalises its argument list in place, as
# library functions do (value_args_validate), so a re-used captured list shows up in the next call.
seen = []


def target(args, options):
    seen.append((args, list(args), options))
    snapshot = list(args)
    args[:] = ['normalised', snapshot]
    return ('result', len(snapshot))


partial = SCRIPT_FUNCTIONS['systemPartial']([target, 1, 'two'], None)
calls = [[], [], [3], [], [4, 5], []]
for extra in calls:
    opts = {'tag': len(seen)}
    given = list(extra)
    try:
        res = partial(given, opts)
    except Exception as exc:
        bad.append({'extra': extra, 'observed': 'EXC ' + type(exc).__name__ + ': ' + str(exc)[:80]})
        continue
    lst, content, o = seen[-1]
    if content != [1, 'two'] + extra:
        bad.append({'extra': extra, 'call_number': len(seen), 'target_received': repr(content), 'expected': repr([1, 'two'] + extra)})
    if lst is given or any(lst is s[0] for s in seen[:-1]):
        bad.append({'extra': extra, 'call_number': len(seen), 'what': 'the target received a list that is not new'})
    if o is not opts:
        bad.append({'extra': extra, 'what': 'the options of the call were not passed on'})
    if res != ('result', 2 + len(extra)):
        bad.append({'extra': extra, 'what': 'the result of the target was not returned', 'observed': repr(res)})
result = {'violates': bool(bad), 'counterexamples': bad[:2]}
