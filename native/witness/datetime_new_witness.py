import datetime
import itertools
from bare_script.library import SCRIPT_FUNCTIONS
new = SCRIPT_FUNCTIONS['datetimeNew']
bad = []
count = 0


def reference(year, month, day, hour=0, minute=0, second=0, millisecond=0):
    # proleptic-Gregorian calendar arithmetic, written from the property statement: the month rolls the year, every other
    # component is an offset from the first instant of that month
    y = year + (month - 1) // 12
    m = (month - 1) % 12 + 1
    try:
        return datetime.datetime(y, m, 1) + datetime.timedelta(days=day - 1, hours=hour, minutes=minute, seconds=second,
                                                               milliseconds=millisecond)
    except (OverflowError, ValueError):
        return 'out of range'


def check(args):
    global count
    count += 1
    want = reference(*args)
    for spell in (int, float):
        try:
            got = new([spell(a) for a in args], None)
        except (OverflowError, ValueError) as exc:
            got = 'out of range'
        except Exception as exc:      # any other escape is a finding
            got = 'EXC ' + type(exc).__name__ + ': ' + str(exc)
        if got != want and len(bad) < 3:
            bad.append({'args': list(args), 'spelling': spell.__name__, 'expected': str(want), 'observed': str(got)})


for month in range(-30, 41):
    check((2024, month, 15))
    check((2023, month, 31, 25, 61, 61, 1001))
for day in list(range(-800, 801, 7)) + [0, 1, 28, 29, 30, 31, 32, 59, 60, 61, 365, 366, 367, -1, -28, -29, -30, -31, -365, -366]:
    for year, month in ((2024, 2), (2023, 2), (2024, 12), (2023, 1), (1900, 3), (2000, 3)):
        check((year, month, day))
for hour, minute, second, ms in itertools.product((-25, -1, 0, 23, 24, 49), (-61, -1, 0, 59, 60, 121), (-3601, -1, 0, 59, 60, 86400), (-1001, -1, 0, 999, 1000, 86400001)):
    check((2024, 2, 29, hour, minute, second, ms))
    check((2023, 12, 31, hour, minute, second, ms))
result = {'violates': bool(bad), 'checked': count, 'counterexamples': bad}
