from bare_script.model import lint_script
from bare_script.parser import parse_script
labels = """
function f1():
    again:
    jumpif (a) again
    jump missing1
endfunction
function f2():
    jump again
    other:
    other:
endfunction
function f3():
    again:
    jump again
endfunction
top:
jump top
jump nowhere
unused:
"""
variables = """
function g1(p):
    x = p
    return x
endfunction
function g2(q):
    y = x + q
    x = 1
    return y
endfunction
function g3(r):
    return r
endfunction
function g4(s, u):
    t = s
    w = u
    systemLog('first call')
    systemLog(t)
    return arrayNew(1, arrayNew(w))
endfunction
"""
pointless = """
items = arrayNew()
verbose = true
verbose && arrayPush(items, 1)
verbose || systemLog('quiet')
1 + 2
(items)
function ff(aa):
    aa && arrayPush(items, aa)
    -aa
endfunction
"""
# expected lists written from the property statement: per scope, unknown = jump targets without a definition, unused =
# definitions nothing jumps to, redefinition = repeated definitions; used-before-assignment per function
expect = {
    labels: ['Unknown label "missing1" in function "f1" (index 2)', 'Redefinition of label "other" in function "f2" (index 2)',
             'Unused label "other" in function "f2" (index 1)', 'Unknown label "again" in function "f2" (index 0)',
             'Unused global label "unused" (index 6)', 'Unknown global label "nowhere" (index 5)'],
    variables: ['Variable "x" of function "g2" used (index 0) before assignment (index 1)'],
    # a statement is pointless only if deleting it changes nothing: one that calls a function anywhere inside is not
    pointless: ['Pointless global statement (index 4)', 'Pointless global statement (index 5)',
                'Pointless statement in function "ff" (index 1)'],
}
# a second definition of a function name is the one in effect at run time: its body is linted like any other
redefined = """function helper(a):
    return a
endfunction
function helper(a, a):
    jumpif (a) done
    here:
    here:
    return a
endfunction
"""
expect[redefined] = ['Redefinition of function "helper" (index 1)', 'Duplicate argument "a" of function "helper" (index 1)',
                     'Redefinition of label "here" in function "helper" (index 2)', 'Unused label "here" in function "helper" (index 1)',
                     'Unknown label "done" in function "helper" (index 0)']
bad = []
for text, want in expect.items():
    got = lint_script(parse_script(text))
    if sorted(got) != sorted(want):
        bad.append({'program': text, 'expected': want, 'observed': got})
result = {'violates': bool(bad), 'counterexamples': bad[:2]}
