from bare_script.data import filter_data, add_calculated_field, join_data
bad = []


def attempt(what, fn):
    try:
        fn()
    except Exception as exc:
        bad.append({'what': what, 'observed': 'EXC ' + type(exc).__name__ + ': ' + str(exc)[:200]})


def rows():
    return [{'n': 0, 'v': None}, {'n': 1, 'v': 0}, {'n': 2, 'v': ''}, {'n': 3, 'v': []}, {'n': 4, 'v': {}}, {'n': 5, 'v': 'x'},
            {'n': 6, 'v': [0]}, {'n': 7, 'v': 0.5}, {'n': 8, 'v': False}, {'n': 9, 'v': True}]


def truthiness():
    # the filter keeps exactly the rows whose expression value is true as BareScript defines it (an empty object is true,
    # null / false / 0 / '' / an empty array are false), in order, and keeps the row objects themselves
    data = rows()
    got = filter_data(data, 'v')
    if [r['n'] for r in got] != [4, 5, 6, 7, 9] or any(g is not data[g['n']] for g in got):
        bad.append({'what': 'filter_data keeps exactly the truthy rows, in order', 'kept': [r['n'] for r in got]})
attempt('filter truthiness', truthiness)


def variables():
    data = rows()
    opts = {'globals': {'limit': 100}, 'statementCount': 0}
    got = filter_data(data, 'n >= lo && n < limit', {'lo': 7}, opts)
    if [r['n'] for r in got] != [7, 8, 9]:
        bad.append({'what': 'filter with variables and caller globals', 'kept': [r['n'] for r in got]})
attempt('filter with variables', variables)


def calculated():
    data = rows()
    got = add_calculated_field(data, 'twice', 'n * k', {'k': 2})
    if got is not data or [r.get('twice') for r in data] != [0, 2, 4, 6, 8, 10, 12, 14, 16, 18]:
        bad.append({'what': 'add_calculated_field sets the value on every row of the same array', 'values': [r.get('twice') for r in data]})
attempt('calculated field', calculated)


def joins():
    # dataJoin pairs each left row with the right rows whose key value is equal, in order, and never overwrites a left field:
    # checked structurally (the left fields of every joined row are the left row's, every right value is present under a
    # name that is not a left field, one name per right field) on tables whose field names collide in every way
    import itertools
    left_fields = [['a'], ['a', 'a2'], ['a', 'a2', 'a3'], ['a', 'b'], ['a', 'a3']]
    right_fields = [['a'], ['a', 'a2'], ['a', 'b'], ['a', 'a2', 'a3', 'b']]
    for lf, rf in itertools.product(left_fields, right_fields):
        left = [{f: (k if f == 'a' else f'L{f}{k}') for f in lf} for k in (1, 2, 2, 3)]
        right = [{f: (k if f == 'a' else f'R{f}{k}{j}') for f in rf} for j, k in enumerate((2, 1, 2, 4))]
        got = join_data([dict(r) for r in left], [dict(r) for r in right], 'a')
        want_pairs = [(l, r) for l in left for r in right if r['a'] == l['a']] + []
        # rows in left order; a left row without a match appears once on its own (the default join keeps it)
        expect = []
        for l in left:
            ms = [r for r in right if r['a'] == l['a']]
            expect += [(l, r) for r in ms] if ms else [(l, None)]
        if len(got) != len(expect):
            bad.append({'what': 'dataJoin row count', 'left_fields': lf, 'right_fields': rf, 'rows': len(got), 'expected': len(expect)})
            return
        names = {}
        for row, (l, r) in zip(got, expect):
            if any(row.get(f) != l[f] for f in lf):
                bad.append({'what': 'dataJoin overwrote a left field', 'left_fields': lf, 'right_fields': rf, 'left_row': l, 'joined': row})
                return
            extra = {k: v for k, v in row.items() if k not in lf}
            if r is None:
                if extra:
                    bad.append({'what': 'unmatched left row has extra fields', 'joined': row})
                    return
                continue
            if sorted(map(str, extra.values())) != sorted(map(str, r.values())) or len(extra) != len(rf):
                bad.append({'what': 'dataJoin lost or duplicated a right value', 'left_fields': lf, 'right_fields': rf, 'right_row': r, 'joined': row})
                return
            for f in rf:
                key = next(k for k, v in extra.items() if v == r[f] and (f != 'a' or k not in names.values() or names.get('a') == k))
                if names.setdefault(f, key) != key:
                    bad.append({'what': 'a right field is stored under different names in different rows', 'field': f, 'joined': row})
                    return
        names.clear()
attempt('join', joins)
result = {'violates': bool(bad), 'counterexamples': bad[:3]}
