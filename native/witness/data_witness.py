from bare_script.data import filter_data, add_calculated_field
bad = []


def attempt(what, fn):
    try:
        fn()
    except Exception as exc:
        bad.append({'what': what, 'observed': 'EXC ' + type(exc).__name__ + ': ' + str(exc)[:200]})


def rows():
    return [{'n': 0, 'v': None}, {'n': 1, 'v': 0}, {'n': 2, 'v': ''}, {'n': 3, 'v': []}, {'n': 4, 'v': {}}, {'n': 5, 'v': 'x'},
            {'n': 6, 'v': [0]}, {'n': 7, 'v': 0.5}, {'n': 8, 'v': False}, {'n': 9, 'v': True}]


def truthiness():
    # the filter keeps exactly the rows whose expression value is true as BareScript defines it (an empty object is true,
    # null / false / 0 / '' / an empty array are false), in order, and keeps the row objects themselves
    data = rows()
    got = filter_data(data, 'v')
    if [r['n'] for r in got] != [4, 5, 6, 7, 9] or any(g is not data[g['n']] for g in got):
        bad.append({'what': 'filter_data keeps exactly the truthy rows, in order', 'kept': [r['n'] for r in got]})
attempt('filter truthiness', truthiness)


def variables():
    data = rows()
    opts = {'globals': {'limit': 100}, 'statementCount': 0}
    got = filter_data(data, 'n >= lo && n < limit', {'lo': 7}, opts)
    if [r['n'] for r in got] != [7, 8, 9]:
        bad.append({'what': 'filter with variables and caller globals', 'kept': [r['n'] for r in got]})
attempt('filter with variables', variables)


def calculated():
    data = rows()
    got = add_calculated_field(data, 'twice', 'n * k', {'k': 2})
    if got is not data or [r.get('twice') for r in data] != [0, 2, 4, 6, 8, 10, 12, 14, 16, 18]:
        bad.append({'what': 'add_calculated_field sets the value on every row of the same array', 'values': [r.get('twice') for r in data]})
attempt('calculated field', calculated)
result = {'violates': bool(bad), 'counterexamples': bad[:3]}
