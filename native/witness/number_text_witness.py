import math
from bare_script.library import SCRIPT_FUNCTIONS
from bare_script.value import value_string
from bare_script.parser import parse_expression, BareScriptParserError
parse_float = SCRIPT_FUNCTIONS['numberParseFloat']
bad = []
# numbers survive conversion to text and back; integral values print without a fraction; non-finite text parses to null
values = [0.0, 1.0, -1.0, 2.5, 1e15, 123456789012345.0, 1e16, 1e20, 1e21, 1.5e+16, 1e-5, 1e-10, 2.5e+100, 1e300, 5e-324, 1.7976931348623157e+308,
          0.1, 1 / 3, 100.0, 1000000.0, 1e+22, 3000.0, 12345.678, 7, 10 ** 15, -42]
for x in values:
    text = value_string(x)
    try:
        back = parse_float([text], None)
    except Exception as exc:
        back = 'EXC ' + type(exc).__name__
    if back != x:
        bad.append({'value': repr(x), 'text': text, 'parsed_back': repr(back), 'what': 'numberParseFloat(stringNew(x)) != x'})
    if float(x).is_integer() and abs(x) < 1e16 and ('.' in text):
        bad.append({'value': repr(x), 'text': text, 'what': 'an integral value prints with a fraction'})
    if x >= 0:
        try:
            lit = parse_expression(text)
            if lit != {'number': float(x)}:
                bad.append({'value': repr(x), 'text': text, 'literal': repr(lit), 'what': 'the printed text is not the same number as a literal'})
        except BareScriptParserError as exc:
            bad.append({'value': repr(x), 'text': text, 'what': 'the printed text is not a numeric literal: ' + str(exc).splitlines()[0]})
for text in ['inf', '-inf', 'Infinity', '-Infinity', 'nan', 'NaN', '1e400', '-1e400', ' -inf ', '-1.5e999', 'abc', '']:
    try:
        got = parse_float([text], None)
    except Exception as exc:
        got = 'EXC ' + type(exc).__name__
    if got is not None:
        bad.append({'text': text, 'parsed': repr(got), 'what': 'text that is not a finite number must parse to null'})
result = {'violates': bool(bad), 'counterexamples': bad[:3]}
