from bare_script.parser import parse_script, BareScriptParserError
CORPUS = [
    "a = 1\nb = a + 2 * (3 - a)\nreturn b\n",
    "function foo(a, b...):\n    c = a + arrayLength(b)\n    return c\nendfunction\nx = foo(1, 2, 3)\n",
    "async function bar():\n    return 1\nendfunction\n",
    "if a > 1:\n    b = 1\nelif a < 0:\n    b = 2\nelse:\n    b = 3\nendif\n",
    "i = 0\nwhile i < 10:\n    i = i + 1\n    if i == 5:\n        continue\n    endif\n    if i == 8:\n        break\n    endif\nendwhile\n",
    "for v, ix in arrayNew(1, 2, 3):\n    systemLog(v + ix)\nendfor\n",
    "top:\njumpif (a) top\njump done\ndone:\nreturn\n",
    "include 'a.bare'\ninclude <b.bare>\nx = 1\ninclude 'c.bare'\n",
    "s = 'it\\'s' + \"a # b\" + 'tab\\there'\nt = 'x \\\\ y'\n",
    "v = [a b] + [c\\]d]\nw = -a ** 2 && !b || c\n",
    "r = foo(1, 'two', bar(3), if(a, b, c))\nfoo()\nreturn arrayNew(1, 2)\n",
    "a = 'form\x0cfeed' + 'vt\x0btab' + 'fs\x1cx' + 'ls x' + 'nel\x85x'\nb = 2\n",
]
COMMENTS = ["", "   ", "\t", "# comment", "   # indented comment", "#"]


def parse(x):
    try:
        return parse_script(x)
    except BareScriptParserError as exc:
        return 'ERROR: ' + str(exc).splitlines()[0]


def space_positions(line):
    out, quote, i = [], None, 0
    in_bracket = False
    while i < len(line):
        c = line[i]
        if quote:
            if c == '\\':
                i += 1
            elif c == quote:
                quote = None
        elif in_bracket:
            if c == '\\':
                i += 1
            elif c == ']':
                in_bracket = False
        elif c in '\'"':
            quote = c
        elif c == '[':
            in_bracket = True
        elif c == ' ' and 0 < i < len(line) - 1 and line[:i].strip() and line[i + 1:].strip():
            out.append(i)
        i += 1
    return out


def variants(text):
    lines = text.split('\n')
    if lines and lines[-1] == '':
        lines = lines[:-1]
    n = len(lines)
    yield 'CRLF line ends', '\r\n'.join(lines) + '\r\n'
    yield 'no final newline', '\n'.join(lines)
    yield 'one chunk per line', [l for l in lines]
    yield 'one chunk per line (with newlines)', [l + '\n' for l in lines]
    for i in range(1, n):
        yield f'two chunks split before line {i + 1}', ['\n'.join(lines[:i]) + '\n', '\n'.join(lines[i:]) + '\n']
    for c in COMMENTS:
        yield f'line {c!r} inserted between all lines', '\n'.join(x for l in lines for x in (c, l)) + '\n' + c + '\n'
        for i in range(n + 1):
            yield f'line {c!r} inserted before line {i + 1}', '\n'.join(lines[:i] + [c] + lines[i:]) + '\n'
    for pad in ('  ', '\t', '        '):
        yield f'every line indented by {pad!r}', '\n'.join(pad + l for l in lines) + '\n'
        yield f'trailing {pad!r} on every line', '\n'.join(l + pad for l in lines) + '\n'
    for i, l in enumerate(lines):
        for p in space_positions(l):
            broken = l[:p] + ' \\\n      ' + l[p + 1:]
            yield f'line {i + 1} broken with a backslash at column {p + 1}', '\n'.join(lines[:i] + [broken] + lines[i + 1:]) + '\n'
            for c in ("", "  # inside a continued line"):
                broken2 = l[:p] + ' \\\n' + c + '\n      ' + l[p + 1:]
                yield f'line {i + 1} broken at column {p + 1} with {c!r} inside the continuation', \
                    '\n'.join(lines[:i] + [broken2] + lines[i + 1:]) + '\n'
            broken3 = l[:p] + ' \\  \r\n' + l[p + 1:]
            yield f'line {i + 1} broken at column {p + 1}, trailing blanks and CRLF after the backslash', \
                '\r\n'.join(lines[:i] + [broken3] + lines[i + 1:]) + '\r\n'


bad = []
count = 0
for text in CORPUS:
    base = parse(text)
    if isinstance(base, str):
        bad.append({'program': text, 'what': 'corpus program does not parse', 'observed': base})
        continue
    for what, variant in variants(text):
        count += 1
        got = parse(variant)
        if got != base:
            bad.append({'program': text, 'layout': what, 'variant': variant if isinstance(variant, str) else list(variant),
                        'observed': got if isinstance(got, str) else 'a different model'})
            break
    again = parse(text)
    if again != base:
        bad.append({'program': text, 'what': 'second parse of the same text differs'})
result = {'violates': bool(bad), 'variants_checked': count, 'counterexamples': bad[:3]}
