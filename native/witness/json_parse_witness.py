from bare_script import parse_script, execute_script
import json
bad = []
# jsonParse builds new containers on every call: modifying one result must not show in another parse of the same text,
# and jsonParse(jsonStringify(v)) == v still holds afterwards
script = '''
text = jsonStringify(value)
first = jsonParse(text)
arrayPush(objectGet(first, 'items'), 'changed')
objectSet(first, 'extra', 1)
second = jsonParse(text)
return arrayNew(second, first)
'''
value = {'items': [1, 2.5, 'x'], 'name': 'n'}
try:
    second, first = execute_script(parse_script(script), {'globals': {'value': json.loads(json.dumps(value))}})
    if second != value or second is first:
        bad.append({'what': 'a second jsonParse of the same text shows the modifications made to the first result', 'second': repr(second)})
except Exception as exc:
    bad.append({'what': 'scenario failed', 'observed': 'EXC ' + type(exc).__name__ + ': ' + str(exc)[:100]})
result = {'violates': bool(bad), 'counterexamples': bad[:2]}
