from bare_script import parse_expression, evaluate_expression, parse_script, execute_script
bad = []
# a name bound in locals or globals wins over a built-in expression function; locals win over globals; the built-ins are
# only visible when builtins is true; variables are read from locals before globals


def mark(tag):
    return lambda args, options: [tag] + list(args)


call = parse_expression('max(1, 2)')
cases = [
    ('global beats built-in', {'globals': {'max': mark('global')}}, None, True, ['global', 1, 2]),
    ('local beats global and built-in', {'globals': {'max': mark('global')}}, {'max': mark('local')}, True, ['local', 1, 2]),
    ('local beats built-in', {'globals': {}}, {'max': mark('local')}, True, ['local', 1, 2]),
    ('built-in when nothing shadows it', {'globals': {}}, {}, True, 2),
    ('global without built-ins', {'globals': {'max': mark('global')}}, None, False, ['global', 1, 2]),
]
for what, options, locals_, builtins, expected in cases:
    try:
        got = evaluate_expression(call, options, locals_, builtins)
    except Exception as exc:
        got = 'EXC ' + type(exc).__name__ + ': ' + str(exc)[:80]
    if got != expected:
        bad.append({'what': what, 'expected': repr(expected), 'observed': repr(got)})
try:
    evaluate_expression(call, {'globals': {}}, None, False)
    bad.append({'what': 'without built-ins an unbound function name must be an error'})
except Exception:
    pass
var = parse_expression('x')
if evaluate_expression(var, {'globals': {'x': 'g'}}, {'x': 'l'}) != 'l' or evaluate_expression(var, {'globals': {'x': 'g'}}, {}) != 'g':
    bad.append({'what': 'variable reads see locals before globals'})
# a script-defined function replaces a library function of the same name, also inside data expressions
try:
    got = execute_script(parse_script(
        "function max(a, b):\n    return 'script-max'\nendfunction\n"
        "data = arrayNew(objectNew('a', 1, 'b', 5))\ndataCalculatedField(data, 'c', 'max(a, b)')\n"
        "return objectGet(arrayGet(data, 0), 'c')\n"), {'globals': {}})
except Exception as exc:
    got = 'EXC ' + type(exc).__name__ + ': ' + str(exc)[:80]
if got != 'script-max':
    bad.append({'what': 'a script-defined function must win over the built-in of the same name in a data expression', 'observed': repr(got)})
result = {'violates': bool(bad), 'counterexamples': bad[:2]}
