"""native/driver.py — runs under /venv/bin/python (the interpreter the repo is installed in, editable, so this is the
current working tree). Reads a JSON job on stdin, rebuilds the concrete inputs (with aliasing), calls the real
function, and prints a JSON record of the outcome and of the post-state of every object."""
import datetime
import importlib
import json
import re
import sys
from fractions import Fraction


class Opaque:
    def __init__(self, n):
        self.n = n

    def __repr__(self):
        return f'<opaque {self.n}>'


class Stub:
    """a host function value: records its calls; returns the configured values in turn (default null) or raises"""
    def __init__(self, n, log, behaviour=None, builder=None):
        self.n, self.log, self.behaviour, self.builder = n, log, list(behaviour or []), builder

    def __call__(self, args, options=None):
        self.log.append(['call', self.n, len(args) if isinstance(args, list) else None])
        if self.behaviour:
            b = self.behaviour.pop(0)
            if 'raises' in b:
                raise {'ValueError': ValueError, 'TypeError': TypeError, 'KeyError': KeyError,
                       'ZeroDivisionError': ZeroDivisionError}.get(b['raises'], RuntimeError)('host function failure')
            return self.builder.val(b.get('returns'))
        return None


EPOCH = datetime.datetime(1970, 1, 1)


class Builder:
    def __init__(self, objects):
        self.desc = objects
        self.objs = {}
        self.calls = []
        for oid, d in objects.items():
            self.objs[oid] = [] if d['kind'] == 'list' else {}
        for oid, d in objects.items():
            if d['kind'] == 'list':
                self.objs[oid].extend(self.val(x) for x in d['items'])
            else:
                for k, v in d['items']:
                    self.objs[oid][k] = self.val(v)

    def val(self, x):
        if isinstance(x, dict):
            if '$ref' in x:
                return self.objs[x['$ref']]
            if '$float' in x:
                return float(Fraction(x['$float']))
            if '$date' in x:
                kind, us = x['$date'][0], x['$date'][1]
                off = x['$date'][2] if len(x['$date']) > 2 else 0
                dt = EPOCH + datetime.timedelta(microseconds=us)
                if kind == 0:
                    return dt.date()
                if kind == 2:
                    tz = datetime.timezone(datetime.timedelta(microseconds=off))
                    return dt.replace(tzinfo=datetime.timezone.utc).astimezone(tz)
                return dt
            if '$func' in x:
                return Stub(x['$func'], self.calls, x.get('behaviour'), self)
            if '$regex' in x:
                return re.compile('x')
            if '$other' in x:
                return Opaque(x['$other'])
            raise ValueError(x)
        return x


class Dumper:
    def __init__(self, builder, next_id):
        self.ids = {id(o): oid for oid, o in builder.objs.items()}
        self.keep = list(builder.objs.values())
        self.next_id = next_id
        self.objects = {}
        self.queue = []

    def val(self, x):
        if x is None or isinstance(x, (bool, str)):
            return x
        if isinstance(x, int):
            return x
        if isinstance(x, float):
            if x != x or x in (float('inf'), float('-inf')):
                return {'$nonfinite': repr(x)}
            fr = Fraction(x)
            return {'$float': f'{fr.numerator}/{fr.denominator}'}
        if isinstance(x, (list, dict)):
            if id(x) not in self.ids:
                self.ids[id(x)] = ('L' if isinstance(x, list) else 'D') + str(self.next_id)
                self.next_id += 1
                self.keep.append(x)
            oid = self.ids[id(x)]
            if oid not in self.objects:
                self.objects[oid] = None
                self.queue.append((oid, x))
            return {'$ref': oid}
        if isinstance(x, datetime.datetime):
            if x.tzinfo is not None:
                us = int((x - EPOCH.replace(tzinfo=datetime.timezone.utc)) / datetime.timedelta(microseconds=1))
                off = int(x.utcoffset() / datetime.timedelta(microseconds=1))
                return {'$date': [2, us, off]}
            return {'$date': [1, int((x - EPOCH) / datetime.timedelta(microseconds=1))]}
        if isinstance(x, datetime.date):
            return {'$date': [0, int((datetime.datetime(x.year, x.month, x.day) - EPOCH) / datetime.timedelta(microseconds=1))]}
        if isinstance(x, Stub):
            return {'$func': x.n}
        if callable(x):
            return {'$func': -1, 'repr': repr(x)[:80]}
        if isinstance(x, re.Pattern):
            return {'$regex': 0}
        if isinstance(x, Opaque):
            return {'$other': x.n}
        if isinstance(x, tuple):
            return {'$tuple': [self.val(y) for y in x]}
        if isinstance(x, complex):
            return {'$other': 'complex'}
        return {'$other': repr(x)[:80]}

    def drain(self):
        while self.queue:
            oid, x = self.queue.pop()
            if isinstance(x, list):
                self.objects[oid] = {'kind': 'list', 'items': [self.val(y) for y in x]}
            else:
                self.objects[oid] = {'kind': 'dict', 'items': [[k if isinstance(k, str) else {'$nonstr': repr(k)}, self.val(v)]
                                                                for k, v in x.items()]}


def main():
    job = json.load(sys.stdin)
    if 'native_code' in job:
        # a fixed witness program for a named obligation: the snippet sets `result` (a dict with a bool 'violates')
        scope = {}
        exec(job['native_code'], scope)  # pylint: disable=exec-used
        print(json.dumps(scope.get('result', {}), default=str))
        return
    b = Builder(job['objects'])
    mod = importlib.import_module('bare_script.' + job['module'])
    fn = mod
    for part in job['function'].split('.'):
        fn = getattr(fn, part)
    args = [b.val(a) for a in job['args']]
    out = {}
    for check in job.get('native_pre', []):
        # native precondition checks (schema validity of models): an input that fails them is not a witness
        try:
            if check['kind'] == 'expression':
                from bare_script.model import validate_expression
                validate_expression(b.val(check['value']))
            elif check['kind'] == 'script':
                from bare_script.model import validate_script
                validate_script(b.val(check['value']))
        except Exception as e:  # pylint: disable=broad-except
            print(json.dumps({'kind': 'precondition-failed', 'detail': f'{type(e).__name__}: {e}'[:300]}))
            return
    try:
        result = fn(*args)
        out['kind'] = 'return'
    except BaseException as e:  # pylint: disable=broad-except
        out['kind'] = 'raise'
        out['exc_class'] = type(e).__name__
        out['exc_mro'] = [c.__name__ for c in type(e).__mro__]
        out['exc_message'] = str(e)[:500]
        result = None
        out['exc_fields'] = {}
        d = Dumper(b, job['next_id'])
        for k in ('return_value', 'error', 'line', 'column_number', 'line_number'):
            if hasattr(e, k):
                out['exc_fields'][k] = d.val(getattr(e, k))
        for oid, o in b.objs.items():
            d.val(o)
        d.drain()
        out['objects'] = d.objects
        out['calls'] = b.calls
        print(json.dumps(out))
        return
    d = Dumper(b, job['next_id'])
    out['value'] = d.val(result)
    for oid, o in b.objs.items():
        d.val(o)
    d.drain()
    out['objects'] = d.objects
    out['calls'] = b.calls
    print(json.dumps(out))


if __name__ == '__main__':
    main()
