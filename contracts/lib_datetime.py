"""contracts.lib_datetime — datetimeNew (C16: component roll-over is proleptic-Gregorian calendar arithmetic), the
component getters, datetimeISOParse/Format wrappers.

The calendar is abstract: DIM(y, m) is the length of a month (28..31, assumed contract of calendar.monthrange) and
DAYNUM(y, m) the day number of the first of a month, defined by DAYNUM(next(y, m)) = DAYNUM(y, m) + DIM(y, m).
"""
import z3
from pyvc.core import (V, VNone, VBool, VInt, VFloat, VStr, VDate, is_none, is_int, is_float, is_date, Int, Real, Bool,
                       numval)
from pyvc.models_calls import ufun, DATE_FIELD, DIM
from pyvc.models_loops import LoopSpec
from .lib import LibFn
from . import specs as sp
from .specs import num, as_index

DAYNUM = ufun('DAYNUM', Int, Int, Int)


def next_month(y, m):
    return z3.If(m == 12, y + 1, y), z3.If(m == 12, 1, m + 1)


def prev_month(y, m):
    return z3.If(m == 1, y - 1, y), z3.If(m == 1, 12, m - 1)


def daynum_step(y, m):
    """DAYNUM(next(y, m)) = DAYNUM(y, m) + DIM(y, m), 28 <= DIM <= 31 (definition of the abstract calendar)"""
    ny, nm = next_month(y, m)
    return z3.And(DAYNUM(ny, nm) == DAYNUM(y, m) + DIM(y, m), DIM(y, m) >= 28, DIM(y, m) <= 31)


def ival(t):
    """the integer denoted by an integral number value"""
    return z3.If(is_int(t), V.i(t), z3.ToInt(V.r(t)))


def normalised_inputs(a):
    """from the seven validated arguments: the month-normalised (year, month), the day number offset and the time of
    day, by plain integer arithmetic (the specification side)"""
    y, mo, d, h, mi, s, ms = [ival(x) for x in a]
    total_ms = ((h * 60 + mi) * 60 + s) * 1000 + ms
    carry_days = total_ms / 86400000                      # z3 integer division is floor for a positive divisor
    tod = total_ms - carry_days * 86400000
    y0 = y + (mo - 1) / 12
    m0 = (mo - 1) - ((mo - 1) / 12) * 12 + 1
    return y0, m0, d + carry_days, tod


def in_quantifier_range(a):
    """the argument ranges of the property statement (years 100-9000, months -30..40, time components +-5000)"""
    y, mo, d, h, mi, s, ms = [ival(x) for x in a]
    lim = 5000
    return z3.And(y >= 100, y <= 9000, mo >= -30, mo <= 40, h >= -lim, h <= lim, mi >= -lim, mi <= lim, s >= -lim, s <= lim,
                  ms >= -lim, ms <= lim)


class DatetimeNew(LibFn):
    def __init__(self):
        super().__init__('datetimeNew', 'library._datetime_new', '_DATETIME_NEW_ARGS', None, lambda spx: {'ret': ('any',)})

    def post(self, K, out):
        spx, valid = self.view(K)
        a = spx.a
        guard = z3.And(valid, in_quantifier_range(a))
        h0, h1 = K.heap, K.heap_after
        obs = []
        y0, m0, dd, tod = normalised_inputs(a)
        if out.kind == 'return':
            res = K.ctx.to_term(out.value)
            t = V.us(res)
            Y, M, D = DATE_FIELD['year'](t), DATE_FIELD['month'](t), DATE_FIELD['day'](t)
            hh, mi, ss, us = (DATE_FIELD[k](t) for k in ('hour', 'minute', 'second', 'microsecond'))
            obs.append(('returns-only-when-valid', valid))
            obs.append(('C16.result-is-a-naive-datetime', z3.And(is_date(res), V.kind(res) == 1)))
            obs.append(('C16.date-part-is-calendar-arithmetic',
                        z3.Implies(guard, z3.And(M >= 1, M <= 12, D >= 1, D <= DIM(Y, M),
                                                 DAYNUM(Y, M) + D - 1 == DAYNUM(y0, m0) + dd - 1))))
            obs.append(('C16.time-of-day-is-the-carry-remainder',
                        z3.Implies(guard, ((hh * 60 + mi) * 60 + ss) * 1000000 + us == tod * 1000)))
        else:
            obs.append(('C16.fails-only-when-invalid-within-the-stated-ranges', z3.Not(guard)))
            obs.append(('failure-value', self._failure_value(K, spx, out.exc)))
        obs.append(('frame', sp.frame_same(h0, h1, h0.alloc, [spx.argsref], [])))
        return obs

    @property
    def loop_specs(self):
        def common(L):
            K = L.ctx.ghost['K']
            spx, valid = self.view(K)
            y0, m0, dd, tod = normalised_inputs(spx.a)
            yt, mt, dt = L.term('year'), L.term('month'), L.term('day')
            y, m, d = ival(yt), ival(mt), ival(dt)
            integral = z3.And(sp.is_integral(yt), sp.is_integral(mt), sp.is_integral(dt))
            return y0, m0, dd, y, m, d, integral, z3.And(valid, in_quantifier_range(spx.a))

        def inv_back(L):
            y0, m0, dd, y, m, d, integral, guard = common(L)
            return [('integral', integral), ('month-in-range', z3.And(m >= 1, m <= 12)),
                    ('C16.same-day-number', z3.Implies(guard, DAYNUM(y, m) + d - 1 == DAYNUM(y0, m0) + dd - 1)),
                    ('day-not-beyond-the-month', d <= DIM(y, m)),
                    ('months-walked-bounded-by-days', z3.And(28 * ((y0 * 12 + m0) - (y * 12 + m)) <= d - dd,
                                                            (y * 12 + m) <= (y0 * 12 + m0)))]

        def lem_back(L):
            y0, m0, dd, y, m, d, integral, guard = common(L)
            py, pm = prev_month(y, m)
            return [daynum_step(py, pm), z3.And(DIM(y, m) >= 28, DIM(y, m) <= 31)]

        def inv_fwd(L):
            y0, m0, dd, y, m, d, integral, guard = common(L)
            md = ival(L.term('month_days'))
            return [('integral', integral), ('month-in-range', z3.And(m >= 1, m <= 12)),
                    ('month-days-is-the-month-length', md == DIM(y, m)),
                    ('C16.same-day-number', z3.Implies(guard, DAYNUM(y, m) + d - 1 == DAYNUM(y0, m0) + dd - 1)),
                    ('day-positive', d >= 1),
                    ('months-walked-bounded-by-days', z3.And(28 * ((y * 12 + m) - (y0 * 12 + m0)) <= dd - d,
                                                            (y * 12 + m) >= (y0 * 12 + m0)))]

        def lem_fwd(L):
            y0, m0, dd, y, m, d, integral, guard = common(L)
            return [daynum_step(y, m)]

        def dec_back(L):
            return 1 - ival(L.term('day'))

        def dec_fwd(L):
            return ival(L.term('day'))
        return {(self.qual, 0): LoopSpec(inv_back, heap='unchanged', lemmas=lem_back, decreases=dec_back, header='day < 1'),
                (self.qual, 1): LoopSpec(inv_fwd, heap='unchanged', lemmas=lem_fwd, decreases=dec_fwd, header='day > month_days')}


def getter(field, conv=None):
    def sem(spx):
        d = spx.a[0]
        t = sp.norm_us(d)
        return {'ret': ('val', VInt(DATE_FIELD[field](t)))}
    return sem


DATETIME_NEW = DatetimeNew()
LIB = [DATETIME_NEW] + [
    LibFn(f'datetime{name}', f'library._datetime_{fn}', f'_DATETIME_{fn.upper()}_ARGS', None, getter(fn),
          inline=('value.value_normalize_datetime',))
    for name, fn in (('Day', 'day'), ('Hour', 'hour'), ('Minute', 'minute'), ('Month', 'month'), ('Second', 'second'),
                     ('Year', 'year'))]
