"""contracts.options_c — options.url_file_relative (C17: relative resolution rules)."""
import z3
from pyvc.core import (V, VStr, is_str, Str, Int, Bool, T)
from pyvc.contract import FnContract
from pyvc.models_calls import ufun, STR_RFIND

IS_URL = ufun('RE_MATCH_options._R_URL', Str, Bool)
PATH_NORM = ufun('PATH_NORM', Str, Str)
OS_PATH_JOIN = ufun('OS_PATH_JOIN', Str, Str, Str)
OS_PATH_DIRNAME = ufun('OS_PATH_DIRNAME', Str, Str)


class UrlFileRelativeImpl(FnContract):
    qual = 'options.url_file_relative'
    frame = 'pure'

    def params(self, ip):
        return [T(ip.ctx.fresh('file_', Str)), T(ip.ctx.fresh('url', Str))]

    def post(self, K, out):
        if out.kind == 'raise':
            return [('C17.resolution-never-fails', False)]
        f, u = V.s(K.term(0)), V.s(K.term(1))
        r = K.ctx.to_term(out.value)
        n = z3.Length(f)
        cut = STR_RFIND(f, z3.StringVal('/'), z3.IntVal(0), n) + 1
        cut = z3.If(cut > n, n, z3.If(cut < 0, 0, cut))
        expected = z3.If(IS_URL(u), u,
                   z3.If(z3.PrefixOf(z3.StringVal('/'), u), PATH_NORM(u),
                   z3.If(IS_URL(f), z3.Concat(z3.SubString(f, 0, cut), u),
                         OS_PATH_JOIN(OS_PATH_DIRNAME(f), PATH_NORM(u)))))
        return [('C17.absolute-unchanged-urls-against-the-url-prefix-paths-against-the-directory', r == VStr(expected))]


URL_FILE_RELATIVE_IMPL = UrlFileRelativeImpl()
