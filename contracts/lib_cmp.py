"""contracts.lib_cmp — consumers of the value order (C11): systemCompare, mathMin/mathMax, arrayIndexOf,
arrayLastIndexOf, arraySort."""
import z3
from pyvc.core import (V, VNone, VBool, VInt, VStr, VList, is_none, is_list, is_func, Int, Str, Bool, HeapSort)
from pyvc.models_loops import LoopSpec
from .lib import LibFn
from . import specs as sp
from .specs import as_index
from .value_c import footprint_heap

j = z3.Int('j!cspec')


def cmp_axioms(H):
    """the proved lemma layer (contracts.cmp_lemmas) as quantified facts: range, antisymmetry, transitivity"""
    x, y, z = z3.Consts('x!ax y!ax z!ax', V)
    c = sp.CMP
    return [z3.ForAll([x, y], z3.And(c(H, x, y) >= -1, c(H, x, y) <= 1, c(H, x, y) == -c(H, y, x))),
            z3.ForAll([x, y, z], z3.Implies(z3.And(c(H, x, y) <= 0, c(H, y, z) <= 0), c(H, x, z) <= 0))]


def system_compare(spx):
    return {'ret': ('val', VInt(sp.CMP(spx.h.term(), spx.a[0], spx.a[1])))}


def minmax_sem(kind):
    def sem(spx):
        # the result is described by clauses on the outcome (see MinMax.post)
        return {'ret': ('any',)}
    return sem


class MinMax(LibFn):
    """mathMin/mathMax(values...): null for no arguments, else an argument that is <= (>=) every argument."""

    def __init__(self, script_name, qual, kind):
        super().__init__(script_name, qual, None, None, minmax_sem(kind), maxargs=0)
        self.kind = kind

    def axioms(self, K):
        return [(f'cmp-lemma{ix}', f) for ix, f in enumerate(cmp_axioms(K.heap.term()))]

    def post(self, K, out):
        h = K.heap
        ref = V.lref(K.term(0))
        n = h.llen(ref)
        if out.kind != 'return':
            return [('C11.never-fails', False)]
        res = K.ctx.to_term(out.value)
        i = z3.Int('i!mm')
        H = h.term()
        rel = (lambda a, b: sp.CMP(H, a, b) <= 0) if self.kind == 'min' else (lambda a, b: sp.CMP(H, a, b) >= 0)
        return [('C11.empty-gives-null', z3.Implies(n == 0, res == VNone)),
                ('C11.result-is-an-argument', z3.Implies(n > 0, z3.Exists([i], z3.And(i >= 0, i < n, res == h.lget(ref, i))))),
                ('C11.result-is-extremal', z3.ForAll([i], z3.Implies(z3.And(i >= 0, i < n), rel(res, h.lget(ref, i))))),
                ('frame', sp.frame_same(h, K.heap_after, h.alloc))]

    @property
    def loop_specs(self):
        kind = self.kind

        def inv(L):
            K = L.ctx.ghost['K']
            h = K.heap
            H = h.term()
            ref = V.lref(K.term(0))
            res = L.term('result')
            first = L.ctx.truthy(L.v('is_first'))
            first = z3.BoolVal(first) if isinstance(first, bool) else first
            i = z3.Int('i!mmi')
            rel = (lambda a, b: sp.CMP(H, a, b) <= 0) if kind == 'min' else (lambda a, b: sp.CMP(H, a, b) >= 0)
            return [('first-flag', first == (L.k == 0)),
                    ('index-range', z3.And(L.k >= 0, L.k <= h.llen(ref))),
                    ('null-before-first', z3.Implies(L.k == 0, res == VNone)),
                    ('result-is-an-argument', z3.Implies(L.k > 0, z3.Exists([i], z3.And(i >= 0, i < L.k, res == h.lget(ref, i))))),
                    ('extremal-so-far', z3.ForAll([i], z3.Implies(z3.And(i >= 0, i < L.k), rel(res, h.lget(ref, i)))))]
        return {(self.qual, 0): LoopSpec(inv, heap='unchanged', header='values')}


LIB = [
    LibFn('systemCompare', 'library._system_compare', '_SYSTEM_COMPARE_ARGS', None, system_compare),
    MinMax('mathMin', 'library._math_min', 'min'),
    MinMax('mathMax', 'library._math_max', 'max'),
]
