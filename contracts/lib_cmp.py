"""contracts.lib_cmp — consumers of the value order (C11): systemCompare, mathMin/mathMax, arrayIndexOf,
arrayLastIndexOf, arraySort."""
import z3
from pyvc.core import (V, VNone, VBool, VInt, VStr, VList, is_none, is_list, is_func, Int, Str, Bool, HeapSort)
from pyvc.models_loops import LoopSpec
from .lib import LibFn
from . import specs as sp
from .specs import as_index
from .value_c import footprint_heap

j = z3.Int('j!cspec')


def cmp_axioms(H):
    """the proved lemma layer (contracts.cmp_lemmas) as quantified facts: range, antisymmetry, transitivity"""
    x, y, z = z3.Consts('x!ax y!ax z!ax', V)
    c = sp.CMP
    return [z3.ForAll([x, y], z3.And(c(H, x, y) >= -1, c(H, x, y) <= 1, c(H, x, y) == -c(H, y, x))),
            z3.ForAll([x, y, z], z3.Implies(z3.And(c(H, x, y) <= 0, c(H, y, z) <= 0), c(H, x, z) <= 0))]


def system_compare(spx):
    return {'ret': ('val', VInt(sp.CMP(spx.h.term(), spx.a[0], spx.a[1])))}


def minmax_sem(kind):
    def sem(spx):
        # the result is described by clauses on the outcome (see MinMax.post)
        return {'ret': ('any',)}
    return sem


class MinMax(LibFn):
    """mathMin/mathMax(values...): null for no arguments, else an argument that is <= (>=) every argument."""

    def __init__(self, script_name, qual, kind):
        super().__init__(script_name, qual, None, None, minmax_sem(kind), maxargs=0)
        self.kind = kind
        self.sample_args = 3

    def axioms(self, K):
        return [(f'cmp-lemma{ix}', f) for ix, f in enumerate(cmp_axioms(K.heap.term()))]

    def post(self, K, out):
        h = K.heap
        ref = V.lref(K.term(0))
        n = h.llen(ref)
        if out.kind != 'return':
            return [('C11.never-fails', False)]
        res = K.ctx.to_term(out.value)
        i = z3.Int('i!mm')
        H = h.term()
        rel = (lambda a, b: sp.CMP(H, a, b) <= 0) if self.kind == 'min' else (lambda a, b: sp.CMP(H, a, b) >= 0)
        return [('C11.empty-gives-null', z3.Implies(n == 0, res == VNone)),
                ('C11.result-is-an-argument', z3.Implies(n > 0, z3.Exists([i], z3.And(i >= 0, i < n, res == h.lget(ref, i))))),
                ('C11.result-is-extremal', z3.ForAll([i], z3.Implies(z3.And(i >= 0, i < n), rel(res, h.lget(ref, i))))),
                ('frame', sp.frame_same(h, K.heap_after, h.alloc))]

    @property
    def loop_specs(self):
        kind = self.kind

        def inv(L):
            K = L.ctx.ghost['K']
            h = K.heap
            H = h.term()
            ref = V.lref(K.term(0))
            # the running extremum is whatever local the function returns (not a name the contract insists on)
            import ast as _ast
            rets = [n for n in _ast.walk(L.frame.fn_node) if isinstance(n, _ast.Return) and isinstance(n.value, _ast.Name)]
            res = L.term(rets[-1].value.id if rets else 'result')
            # the flag is an incidental temporary of the current code: its clause is stated only while the local exists
            flag = []
            if L.has('is_first'):
                first = L.ctx.truthy(L.v('is_first'))
                first = z3.BoolVal(first) if isinstance(first, bool) else first
                flag = [('first-flag', first == (L.k == 0))]
            i = z3.Int('i!mmi')
            rel = (lambda a, b: sp.CMP(H, a, b) <= 0) if kind == 'min' else (lambda a, b: sp.CMP(H, a, b) >= 0)
            return flag + [
                    ('index-range', z3.And(L.k >= 0, L.k <= h.llen(ref))),
                    ('null-before-first', z3.Implies(L.k == 0, res == VNone)),
                    ('result-is-an-argument', z3.Implies(L.k > 0, z3.Exists([i], z3.And(i >= 0, i < L.k, res == h.lget(ref, i))))),
                    ('extremal-so-far', z3.ForAll([i], z3.Implies(z3.And(i >= 0, i < L.k), rel(res, h.lget(ref, i)))))]
        return {(self.qual, 0): LoopSpec(inv, heap='unchanged', header='values')}


MinMax.replay_prepare = sp.replay_prepare_cmp

LIB = [
    LibFn('systemCompare', 'library._system_compare', '_SYSTEM_COMPARE_ARGS', None, system_compare),
    MinMax('mathMin', 'library._math_min', 'min'),
    MinMax('mathMax', 'library._math_max', 'max'),
]


# -- arrayIndexOf / arrayLastIndexOf (value variant), arraySort (default order), objectNew ---------------------------
from pyvc.core import is_dict, VDict, Heap           # noqa: E402
from pyvc.models_calls import ufun as _ufun          # noqa: E402


class IndexOf(LibFn):
    """first (last) index at or after (before) `index` whose element compares equal to `value`; -1 if none. The
    match-function variant (value is a function) is only covered for exception containment of the plain path."""

    def __init__(self, script_name, qual, model_name, last):
        super().__init__(script_name, qual, model_name, -1, lambda spx: {'ret': ('any',)})
        self.last = last

    def axioms(self, K):
        return [(f'cmp-lemma{ix}', f) for ix, f in enumerate(cmp_axioms(K.heap.term()))]

    def pre(self, K):
        spx, valid = self.view(K)
        return super().pre(K) + [('value-is-not-a-match-function', z3.Not(is_func(spx.a[1])))]

    def start(self, spx):
        h = spx.h
        a = V.lref(spx.a[0])
        if self.last:
            return z3.If(is_none(spx.a[2]), h.llen(a) - 1, as_index(spx.a[2]))
        return as_index(spx.a[2])

    def post(self, K, out):
        spx, valid = self.view(K)
        h = spx.h
        H = h.term()
        a = V.lref(spx.a[0])
        n = h.llen(a)
        start = self.start(spx)
        ok = z3.And(valid, start < n)
        val = spx.a[1]
        i = z3.Int('i!io')
        obs = []
        if out.kind == 'return':
            r = K.ctx.to_term(out.value)
            ri = V.i(r)
            inside = (lambda x: z3.And(x >= 0, x <= start)) if self.last else (lambda x: z3.And(x >= start, x < n))
            between = (lambda x: z3.And(x > ri, x <= start)) if self.last else (lambda x: z3.And(x >= start, x < ri))
            obs.append(('returns-only-when-valid', ok))
            obs.append(('C11+C15.found-index-is-the-nearest-equal-element',
                        z3.And(is_int(r), z3.If(ri == -1,
                                                z3.ForAll([i], z3.Implies(inside(i), sp.CMP(H, h.lget(a, i), val) != 0)),
                                                z3.And(inside(ri), sp.CMP(H, h.lget(a, ri), val) == 0,
                                                       z3.ForAll([i], z3.Implies(between(i), sp.CMP(H, h.lget(a, i), val) != 0)))))))
        else:
            obs.append(('fails-only-when-invalid', z3.Not(ok)))
            obs.append(('failure-value', self._failure_value(K, spx, out.exc)))
        obs.append(('frame', sp.frame_same(K.heap, K.heap_after, K.heap.alloc, [spx.argsref], [])))
        return obs

    @property
    def loop_specs(self):
        last = self.last

        def inv(L):
            K = L.ctx.ghost['K']
            spx, valid = self.view(K)
            h = spx.h
            H = h.term()
            a = V.lref(spx.a[0])
            start = self.start(spx)
            i = z3.Int('i!ioi')
            seen = (lambda x: z3.And(x <= start, x > start - L.k)) if last else (lambda x: z3.And(x >= start, x < start + L.k))
            return [('none-equal-so-far', z3.ForAll([i], z3.Implies(seen(i), sp.CMP(H, h.lget(a, i), spx.a[1]) != 0))),
                    ('index-range', L.k >= 0)]
        # loop 0 is the match-function variant (excluded by the precondition), loop 1 the value variant
        return {(self.qual, 1): LoopSpec(inv, heap='unchanged')}


from pyvc.core import is_int, is_str     # noqa: E402


def array_sort_sem(spx):
    h = spx.h
    a = V.lref(spx.a[0])
    perm = _ufun('SORT_PERM_value.value_compare', HeapSort, Int, z3.ArraySort(Int, Int))(h.term(), a)
    jj = z3.Int('j!ss')
    return {'ok': is_none(spx.a[1]), 'ret': ('val', spx.a[0]),
            'effects': [('list', a, h.llen(a), z3.Lambda([jj], h.lget(a, z3.Select(perm, jj))))]}


class ArraySortDefault(LibFn):
    """arraySort(array) with the default order (the compareFn variant runs script callbacks during the sort and is not
    under contract)"""

    def __init__(self):
        super().__init__('arraySort', 'library._array_sort', '_ARRAY_SORT_ARGS', None, array_sort_sem)

    def pre(self, K):
        spx, valid = self.view(K)
        return super().pre(K) + [('default-order', z3.Or(z3.Not(valid), is_none(spx.a[1])))]


class ObjectNew(LibFn):
    """objectNew(k1, v1, k2, v2, ...): a fresh object; later pairs win; a missing last value is null; a non-string key
    fails with null"""

    def __init__(self):
        super().__init__('objectNew', 'library._object_new', None, None, lambda spx: {'ret': ('any',)}, maxargs=0)

    def post(self, K, out):
        h0, h1 = K.heap, K.heap_after
        ref = V.lref(K.term(0))
        n = h0.llen(ref)
        i = z3.Int('i!on')
        keys_ok = z3.ForAll([i], z3.Implies(z3.And(i >= 0, 2 * i < n), is_str(h0.lget(ref, 2 * i))))
        obs = []
        if out.kind == 'return':
            r = K.ctx.to_term(out.value)
            k = z3.String('k!on')
            d = V.dref(r)
            last = LASTKEY(h0.term(), ref, k, (n + 1) / 2)
            val = z3.If(2 * last + 1 < n, h0.lget(ref, 2 * last + 1), VNone)
            obs.append(('returns-only-when-valid', keys_ok))
            obs.append(('C15.fresh-object-with-the-last-value-of-each-key',
                        z3.And(is_dict(r), d >= h0.alloc,
                               z3.ForAll([k], z3.And(h1.dhas(d, k) == (last >= 0),
                                                     z3.Implies(last >= 0, h1.dget(d, k) == val))))))
        else:
            obs.append(('fails-only-when-invalid', z3.Not(keys_ok)))
            spx, _ = self.view(K)
            obs.append(('failure-value', self._failure_value(K, spx, out.exc)))
        obs.append(('frame', sp.frame_same(h0, h1, h0.alloc)))
        return obs

    def axioms(self, K):
        k = z3.String('k!lk0')
        return [('LASTKEY-base', z3.ForAll([k], LASTKEY(K.heap.term(), V.lref(K.term(0)), k, 0) == -1))]

    @property
    def loop_specs(self):
        def inv(L):
            K = L.ctx.ghost['K']
            h0 = K.heap
            h = L.heap
            ref = V.lref(K.term(0))
            n = h0.llen(ref)
            o = L.term('object_')
            d = V.dref(o)
            k = z3.String('k!oni')
            i = z3.Int('i!oni')
            last = LASTKEY(h0.term(), ref, k, L.k)
            val = z3.If(2 * last + 1 < n, h0.lget(ref, 2 * last + 1), VNone)
            return [('object-fresh', z3.And(is_dict(o), d >= h0.alloc, d < h.alloc)),
                    ('pairs-so-far', z3.ForAll([k], z3.And(h.dhas(d, k) == (last >= 0), z3.Implies(last >= 0, h.dget(d, k) == val)))),
                    ('keys-so-far-are-strings', z3.ForAll([i], z3.Implies(z3.And(i >= 0, i < L.k), is_str(h0.lget(ref, 2 * i))))),
                    ('index-range', z3.And(L.k >= 0, 2 * L.k <= n + 1)),
                    ('frame', sp.frame_same(h0, h, h0.alloc))]

        def lem(L):
            K = L.ctx.ghost['K']
            h0 = K.heap
            ref = V.lref(K.term(0))
            k = z3.String('k!onl')
            key = h0.lget(ref, 2 * L.k)
            return [z3.ForAll([k], LASTKEY(h0.term(), ref, k, L.k + 1) ==
                              z3.If(z3.And(is_str(key), V.s(key) == k), L.k, LASTKEY(h0.term(), ref, k, L.k)))]
        return {(self.qual, 0): LoopSpec(inv, heap='havoc', lemmas=lem, keeps_owned=True)}


LASTKEY = _ufun('LASTKEY', HeapSort, Int, Str, Int, Int)    # greatest pair index j < k whose key is the given string, or -1

LIB += [
    IndexOf('arrayIndexOf', 'library._array_index_of', '_ARRAY_INDEX_OF_ARGS', False),
    IndexOf('arrayLastIndexOf', 'library._array_last_index_of', '_ARRAY_LAST_INDEX_OF_ARGS', True),
    ArraySortDefault(),
    ObjectNew(),
]


IndexOf.replay_prepare = sp.replay_prepare_cmp
ArraySortDefault.replay_prepare = sp.replay_prepare_cmp


# ---------------------------------------------------------------------------------------------
# arraySort(array, compareFn): the comparison callbacks (C09: callbacks from library functions run under the caller's
# options, so their statements are counted, and a failing callback aborts the sort)
# ---------------------------------------------------------------------------------------------

def _sort_with_callbacks(ip, lst, kwargs):
    """Assumed contract of list.sort(key=cmp_to_key(f)) for a closure f: when the list has two or more elements f is
    called on two of them (one symbolic call stands for every call: the clauses below are stated per call); an exception
    raised by f leaves sort (CPython propagates it); afterwards the list holds an unspecified rearrangement."""
    from pyvc.interp import OutOfReach, Obj, S
    from pyvc.models_calls import used
    ctx = ip.ctx
    key = kwargs.get('key')
    if not (isinstance(key, Obj) and key.kind == 'cmpkey' and isinstance(key.f['fn'], Obj) and key.f['fn'].kind in ('lambda', 'closure')):
        raise OutOfReach('list.sort: the key is not cmp_to_key(<closure>)')
    used('list.sort(key=cmp_to_key(f)) with a closure f: f is called on pairs of elements; an exception from f propagates; '
         'the list ends up as an unspecified rearrangement (order under a script callback is not specified here)')
    h = ctx.heap
    ref = z3.simplify(V.lref(lst.t))
    n = h.llen(ref)
    if ctx.branch(n >= 2):
        i, k = ctx.fresh('sort_i', Int), ctx.fresh('sort_k', Int)
        ctx.assume(z3.And(i >= 0, i < n, k >= 0, k < n, i != k))
        ctx.ghost['sort_pair'] = (h.lget(ref, i), h.lget(ref, k))
        ip.call(key.f['fn'], [S(h.lget(ref, i)), S(h.lget(ref, k))], {}, None, None)
        h = ctx.heap
        els = ctx.fresh('sorted_els', z3.ArraySort(Int, V))
        j = z3.Int('j!srt')
        from pyvc.core import wf_value
        ctx.assume(z3.ForAll([j], z3.Implies(z3.And(j >= 0, j < h.llen(ref)), wf_value(h, z3.Select(els, j)))))
        ctx.heap = h.lsetall(ref, h.llen(ref), els)
    from pyvc.interp import C
    return C(None)


class ArraySortCustom(LibFn):
    """arraySort(array, compareFn)"""
    hooks = {'list_sort': _sort_with_callbacks}

    def __init__(self):
        super().__init__('arraySort', 'library._array_sort', '_ARRAY_SORT_ARGS', None, lambda spx: {'ret': ('any',)})
        from .runtime_c import host_callable_model
        self.callable_model = host_callable_model

    def pre(self, K):
        spx, valid = self.view(K)
        return super().pre(K) + [('custom-order', z3.And(valid, is_func(spx.a[1])))]

    def post(self, K, out):
        spx, valid = self.view(K)
        events = [e for e in K.ctx.ghost.get('events', []) if e['kind'] == 'callable']
        obs = []
        for ix, e in enumerate(events):
            at = e['arg_terms']
            pair = K.ctx.ghost.get('sort_pair')
            hb = e['heap_before']
            ok_args = z3.BoolVal(False)
            if len(at) == 2 and at[0] is not None and at[1] is not None and pair is not None:
                lr = V.lref(at[0])
                ok_args = z3.And(is_list(at[0]), hb.llen(lr) == 2, hb.lget(lr, 0) == pair[0], hb.lget(lr, 1) == pair[1])
                obs.append((f'C09.callback{ix}-runs-under-the-callers-options', at[1] == K.term(1)))
            else:
                obs.append((f'C09.callback{ix}-runs-under-the-callers-options', z3.BoolVal(False)))
            obs.append((f'callback{ix}-compares-two-elements', ok_args))
            oc = e.get('outcome')
            if oc is not None and oc.kind == 'raise':
                same = out.kind == 'raise' and out.exc is oc.exc
                obs.append((f'C09.failing-callback{ix}-aborts-the-sort', z3.BoolVal(bool(same))))
        if out.kind == 'return':
            res = K.ctx.to_term(out.value)
            obs.append(('returns-the-array', res == spx.a[0]))
            obs.append(('callback-was-consulted', z3.Implies(K.heap.llen(V.lref(spx.a[0])) >= 2, z3.BoolVal(len(events) >= 1))))
        else:
            obs.append(('C09.fails-only-through-the-callback',
                        z3.BoolVal(any(e.get('outcome') is not None and e['outcome'].kind == 'raise' and e['outcome'].exc is out.exc
                                       for e in events))))
        return obs


ARRAY_SORT_CUSTOM = ArraySortCustom()


# ---------------------------------------------------------------------------------------------
# arrayIndexOf / arrayLastIndexOf with a match *function* (C15: the nearest element the function accepts; C09: the
# callbacks run under the caller's options). The value variant is IndexOf above; the two preconditions are complementary.
# ---------------------------------------------------------------------------------------------
MATCHED = _ufun('MATCH_FN_ACCEPTED', Int, Bool)      # ghost: the match function returned a true value in iteration k


class IndexOfMatch(LibFn):
    """arrayIndexOf(array, fn, index) / arrayLastIndexOf(array, fn, index): fn is called once per visited element, with
    a one-element argument list holding that element and the caller's options, in index order from `index`; the result
    is the index of the first element it accepts, -1 when every index of the range was visited and none accepted.
    A failing callback (or one that shrinks the array under the scan) makes the call fail with null."""

    def __init__(self, script_name, qual, model_name, last):
        super().__init__(script_name, qual, model_name, -1, lambda spx: {'ret': ('any',)})
        self.last = last
        from .runtime_c import host_callable_model
        self.callable_model = host_callable_model

    cache_tag = 'match-function'

    def pre(self, K):
        spx, valid = self.view(K)
        return super().pre(K) + [('value-is-a-match-function', is_func(spx.a[1]))]

    def start(self, spx):
        a = V.lref(spx.a[0])
        if self.last:
            return z3.If(is_none(spx.a[2]), spx.h.llen(a) - 1, as_index(spx.a[2]))
        return as_index(spx.a[2])

    def position(self, spx, k):
        return self.start(spx) - k if self.last else self.start(spx) + k

    def count(self, spx):
        """number of indexes in the scanned range"""
        n = spx.h.llen(V.lref(spx.a[0]))
        c = self.start(spx) + 1 if self.last else n - self.start(spx)
        return z3.If(c > 0, c, 0)

    def _protocol(self, K, spx, e, k):
        at = e['arg_terms']
        hb = e['heap_before']
        if len(at) != 2 or at[0] is None or at[1] is None:
            return z3.BoolVal(False), z3.BoolVal(False)
        lr = V.lref(at[0])
        elem = hb.lget(V.lref(spx.a[0]), self.position(spx, k))
        return (z3.And(is_list(at[0]), hb.llen(lr) == 1, hb.lget(lr, 0) == elem), at[1] == K.term(1))

    def post(self, K, out):
        spx, valid = self.view(K)
        n = spx.h.llen(V.lref(spx.a[0]))
        ok = z3.And(valid, self.start(spx) < n)
        events = K.ctx.ghost.get('events', [])
        tag0 = self.qual + '.loop0'
        begins = [ix for ix, e in enumerate(events) if e.get('kind') == 'loop-body-begin' and e['loop'] == tag0]
        dones = [e for e in events if e.get('kind') == 'loop-done' and e['loop'] == tag0]
        calls = [e for e in events if e.get('kind') == 'callable']
        obs = []
        if out.kind == 'return':
            r = K.ctx.to_term(out.value)
            obs.append(('returns-only-when-valid', ok))
            if dones:
                # the scan ran off the end of the range: every index was visited and the function accepted none
                i = z3.Int('i!iom')
                obs.append(('C15.minus-one-only-after-the-whole-range-was-refused',
                            z3.And(r == VInt(z3.IntVal(-1)),
                                   z3.ForAll([i], z3.Implies(z3.And(i >= 0, i < self.count(spx)), z3.Not(MATCHED(i)))))))
            elif begins:
                k = events[begins[-1]]['k']
                mine = [e for e in events[begins[-1] + 1:] if e.get('kind') == 'callable']
                if len(mine) == 1 and mine[0].get('outcome') is not None and mine[0]['outcome'].kind == 'return':
                    e = mine[0]
                    args_ok, opts_ok = self._protocol(K, spx, e, k)
                    obs.append(('C15.found-index-is-the-element-the-function-accepted',
                                z3.And(r == VInt(self.position(spx, k)), k >= 0, k < self.count(spx),
                                       sp.truthy(e['heap_after'], K.ctx.to_term(e['outcome'].value)))))
                    obs.append(('C15.match-function-sees-the-visited-element', args_ok))
                    obs.append(('C09.match-function-runs-under-the-callers-options', opts_ok))
                else:
                    obs.append(('C15.found-index-is-the-element-the-function-accepted', z3.BoolVal(False)))
            else:
                obs.append(('C15.result-comes-from-the-scan', z3.BoolVal(False)))
        else:
            # a failure of a later iteration (k > 0) follows a callback of an earlier one, which may have shrunk the array
            later = z3.BoolVal(False)
            if begins and not dones:
                later = events[begins[-1]]['k'] > 0
            obs.append(('fails-only-when-invalid-or-in-a-callback', z3.Or(z3.Not(ok), z3.BoolVal(bool(calls)), later)))
            from_callback = any(e.get('outcome') is not None and e['outcome'].kind == 'raise' and e['outcome'].exc is out.exc
                                for e in calls)
            if not from_callback:
                # the function's own failures carry the documented value (an exception of the match function is
                # passed on unchanged: the call wrapper turns it into null)
                # (after a callback has run the array may have shrunk under the scan: that failure is the callback's)
                obs.append(('failure-value', z3.Or(later, self._failure_value(K, spx, out.exc))))
        return obs

    @property
    def loop_specs(self):
        def inv(L):
            i = z3.Int('i!iomi')
            h, g = L.heap, L.heap0
            return [('none-accepted-so-far', z3.ForAll([i], z3.Implies(z3.And(i >= 0, i < L.k), z3.Not(MATCHED(i))))),
                    ('index-range', L.k >= 0),
                    # nothing has run before the first callback: the first iteration sees the heap the loop was entered with
                    ('first-iteration-sees-the-entry-heap',
                     z3.Implies(L.k == 0, z3.And(h.LEN == g.LEN, h.ELS == g.ELS, h.HAS == g.HAS, h.VAL == g.VAL, h.NK == g.NK,
                                                 h.KEY == g.KEY)))]

        def body(L, events):
            ctx = L.ctx
            K = ctx.ghost['K']
            spx, valid = self.view(K)
            calls = [e for e in events if e.get('kind') == 'callable']
            if len(calls) != 1 or calls[0].get('outcome') is None or calls[0]['outcome'].kind != 'return':
                return [('C15.match-function-called-once-per-visited-element', False)]
            e = calls[0]
            # ghost definition for this iteration
            ctx.assume(MATCHED(L.k) == sp.truthy(e['heap_after'], ctx.to_term(e['outcome'].value)))
            args_ok, opts_ok = self._protocol(K, spx, e, L.k)
            return [('C15.match-function-sees-the-visited-element', args_ok),
                    ('C09.match-function-runs-under-the-callers-options', opts_ok)]
        # loop 0 is the match-function variant, loop 1 the value variant (excluded by the precondition)
        return {(self.qual, 0): LoopSpec(inv, heap='havoc', body_check=body)}


INDEX_OF_MATCH = [
    IndexOfMatch('arrayIndexOf', 'library._array_index_of', '_ARRAY_INDEX_OF_ARGS', False),
    IndexOfMatch('arrayLastIndexOf', 'library._array_last_index_of', '_ARRAY_LAST_INDEX_OF_ARGS', True),
]


# ---------------------------------------------------------------------------------------------
# systemPartial(func, args...): the returned function (C04: the calling convention holds on the path through a partial)
# ---------------------------------------------------------------------------------------------
class SystemPartial(LibFn):
    """systemPartial(func, a1..an) with n >= 1 returns a function value p; every call p(extra, options) calls func
    exactly once with a *new* argument list a1..an ++ extra (neither the captured list nor `extra` itself: the callee
    owns its argument list and may normalise it in place) and the options of that call, and returns what func returns.
    The returned closure is checked by running it, in the post-state, on an arbitrary argument list."""

    def __init__(self):
        super().__init__('systemPartial', 'library._system_partial', '_SYSTEM_PARTIAL_ARGS', None, lambda spx: {'ret': ('any',)})
        from .runtime_c import host_callable_model
        self.callable_model = host_callable_model

    def post(self, K, out):
        from pyvc.interp import Obj as _Obj, S
        spx, valid = self.view(K)
        cnt, els = spx.rest()
        ok = z3.And(valid, cnt >= 1)
        if out.kind != 'return':
            return [('fails-only-when-invalid', z3.Not(ok)), ('failure-value', self._failure_value(K, spx, out.exc)),
                    ('frame', sp.frame_same(K.heap, K.heap_after, K.heap.alloc, [spx.argsref], []))]
        obs = [('returns-only-when-valid', ok),
               ('frame', sp.frame_same(K.heap, K.heap_after, K.heap.alloc, [spx.argsref], []))]
        p = out.value
        if not (isinstance(p, _Obj) and p.kind in ('lambda', 'closure')):
            return obs + [('C04.returns-a-function-value', z3.BoolVal(False))]
        ctx, ip = K.ctx, K.ip
        # call the returned function on an arbitrary argument list. One symbolic call stands for every call: the target
        # always receives a list allocated by that call, so the captured list never escapes and is the same at every call
        # (ownership of unescaped temporaries, DESIGN.md §7)
        from pyvc.interp import PyRaise
        for rnd in (1,):
            h = ctx.heap
            extra = ctx.fresh(f'extra{rnd}', Int)
            opts = ctx.fresh(f'call_options{rnd}', V)
            from pyvc.core import wf_value
            ctx.assume(z3.And(extra >= 0, extra < h.alloc, h.llen(extra) >= 0, wf_value(h, opts)))
            ev0 = len(ctx.ghost.setdefault('events', []))
            try:
                res = ip.call(p, [S(VList(extra)), S(opts)], {}, None, None)
            except PyRaise:
                res = None      # the target failed: the failure is passed on; the argument protocol is still checked
            mine = [e for e in ctx.ghost['events'][ev0:] if e.get('kind') == 'callable']
            if len(mine) != 1 or mine[0]['arg_terms'][0] is None or len(mine[0]['arg_terms']) != 2:
                obs.append((f'C04.partial-call{rnd}-calls-the-target-exactly-once', z3.BoolVal(False)))
                continue
            e = mine[0]
            hb = e['heap_before']
            lst = e['arg_terms'][0]
            lr = V.lref(lst)
            m = h.llen(extra)
            i = z3.Int('i!spc')
            obs.append((f'C04.partial-call{rnd}-passes-bound-then-extra-arguments', z3.And(
                is_list(lst), hb.llen(lr) == cnt + m,
                z3.ForAll([i], z3.Implies(z3.And(i >= 0, i < cnt), hb.lget(lr, i) == z3.Select(els, i))),
                z3.ForAll([i], z3.Implies(z3.And(i >= 0, i < m), hb.lget(lr, cnt + i) == h.lget(extra, i))))))
            obs.append((f'C04.partial-call{rnd}-passes-a-new-argument-list', lr >= h.alloc))
            obs.append((f'C04.partial-call{rnd}-passes-the-options-of-the-call', e['arg_terms'][1] == opts))
            if res is not None:
                obs.append((f'C04.partial-call{rnd}-returns-the-targets-result',
                            K.ctx.to_term(res) == K.ctx.to_term(e['outcome'].value)))
        return obs


SYSTEM_PARTIAL = SystemPartial()

import os as _os     # noqa: E402
with open(_os.path.join(_os.path.dirname(_os.path.dirname(_os.path.abspath(__file__))), 'native', 'witness', 'partial_witness.py'),
          encoding='utf-8') as _fh:
    SystemPartial.native_witness = {'C04.partial-call': _fh.read()}
