"""contracts.parse_script_c — parser.parse_script: one iteration of the line loop under an assumed state-typing
invariant (C01 lowering schema, C06 totality/positions, C10 comment lines), plus the epilogue (C06 open blocks).

Which construct a line is recognised as is decided by the regexes (abstract here): the obligations are about what is
emitted and how the parser state changes GIVEN the construct recognised.
"""
import z3
from pyvc.core import (V, VNone, VBool, VInt, VFloat, VStr, VList, VDict, is_none, is_bool, is_int, is_float, is_str,
                       is_list, is_dict, Str, Int, Bool, Heap, wf_value, Val, C, S, B, I, R, T, Obj)
from pyvc.contract import FnContract, Outcome
from pyvc.models_loops import LoopSpec
from pyvc.models_ops import STR_OF_INT
from . import specs as sp_
from .parser_c import ParserFn, PARSE_EXPRESSION, parser_error_ctor, shallow_expr


def sv(x):
    return z3.StringVal(x)


def dg(h, d, k):
    return h.dget(V.dref(d), sv(k))


def dh(h, d, k):
    return h.dhas(V.dref(d), sv(k))


def lbl(kind, n):
    """generated names: the reserved prefix + construct kind + the script-wide counter"""
    return z3.Concat(sv('__bareScript' + kind), STR_OF_INT(n))


# -- structural templates --------------------------------------------------------------------------

def tm(h, term, pat):
    """z3 formula: the value `term` in heap h has the shape `pat` (dict: exactly these keys; list: exactly these
    elements; python str/number: that constant; z3 String: that text; z3 V term: that very value/object)"""
    if isinstance(pat, dict):
        r = V.dref(term)
        parts = [is_dict(term), h.dnk(r) == len(pat)]
        for k, sub in pat.items():
            parts.append(h.dhas(r, sv(k)))
            parts.append(tm(h, h.dget(r, sv(k)), sub))
        return z3.And(parts)
    if isinstance(pat, list):
        r = V.lref(term)
        parts = [is_list(term), h.llen(r) == len(pat)]
        for ix, sub in enumerate(pat):
            parts.append(tm(h, h.lget(r, ix), sub))
        return z3.And(parts)
    if isinstance(pat, bool):
        return term == VBool(pat)
    if isinstance(pat, str):
        return term == VStr(sv(pat))
    if isinstance(pat, (int, float)):
        return z3.And(sp_.is_number(term), sp_.num(term) == pat)
    if z3.is_expr(pat) and pat.sort() == Str:
        return term == VStr(pat)
    if z3.is_expr(pat):
        return term == pat
    raise TypeError(pat)


def appended(h0, h1, lst, pats):
    """list `lst` in h1 is its h0 content followed by values of the given shapes"""
    r = V.lref(lst)
    n0 = h0.llen(r)
    i = z3.Int('i!app')
    parts = [h1.llen(r) == n0 + len(pats),
             z3.ForAll([i], z3.Implies(z3.And(i >= 0, i < n0), h1.lget(r, i) == h0.lget(r, i)))]
    for k, p in enumerate(pats):
        parts.append(tm(h1, h1.lget(r, n0 + k), p))
    return z3.And(parts)


# -- the assumed state typing ------------------------------------------------------------------------

def ldef_wf(h, d):
    """a label-definition stack entry"""
    r = V.dref(d)
    key = h.dkey(r, 0)
    v = h.dget(r, key)

    def s_(k):
        return z3.And(h.dhas(V.dref(v), sv(k)), is_str(h.dget(V.dref(v), sv(k))))
    jump = h.dget(V.dref(v), sv('jump'))
    common = z3.And(is_dict(v), r >= 0, r < h.alloc, V.dref(v) >= 0, V.dref(v) < h.alloc,
                    z3.Implies(is_dict(jump), z3.And(V.dref(jump) >= 0, V.dref(jump) < h.alloc)),
                    s_('done'), s_('line'), h.dhas(V.dref(v), sv('lineNumber')),
                    is_int(h.dget(V.dref(v), sv('lineNumber'))))
    k = z3.String('k!ld')
    return z3.And(
        is_dict(d), h.dnk(r) == 1, h.dhas(r, key),
        h.dhas(r, sv('if')) == (key == sv('if')), h.dhas(r, sv('while')) == (key == sv('while')),
        h.dhas(r, sv('for')) == (key == sv('for')),
        z3.Or(key == sv('if'), key == sv('while'), key == sv('for')), common,
        z3.Implies(key == sv('if'), z3.And(h.dhas(V.dref(v), sv('jump')), is_dict(jump), V.dref(jump) != V.dref(v),
                                           V.dref(jump) != r, h.dhas(V.dref(jump), sv('label')),
                                           is_str(h.dget(V.dref(jump), sv('label'))),
                                           h.dhas(V.dref(v), sv('hasElse')), is_bool(h.dget(V.dref(v), sv('hasElse'))))),
        z3.Implies(key != sv('if'), z3.And(s_('loop'), s_('continue'))),
        z3.Implies(key == sv('while'), h.dhas(V.dref(v), sv('expr'))),
        z3.Implies(key == sv('for'), z3.And(s_('index'), s_('values'), s_('length'), s_('value'))),
        z3.Implies(h.dhas(V.dref(v), sv('hasContinue')), h.dget(V.dref(v), sv('hasContinue')) == VBool(True)))


def stmt_shallow(h, st):
    inc = h.dget(V.dref(st), sv('include'))
    incs = h.dget(V.dref(inc), sv('includes'))
    return z3.And(is_dict(st), z3.Implies(h.dhas(V.dref(st), sv('include')),
                                          z3.And(is_dict(inc), h.dhas(V.dref(inc), sv('includes')), is_list(incs),
                                                 h.llen(V.lref(incs)) >= 0)))


def state_typing(L):
    h = L.heap
    script = L.term('script')
    fdef = L.term('function_def')
    depth = L.term('function_label_def_depth')
    ldefs = L.term('label_defs')
    lc = L.term('line_continuation')
    lines = L.term('lines')
    s0 = dg(h, script, 'statements')
    fn = dg(h, fdef, 'function')
    sf = dg(h, fn, 'statements')
    i = z3.Int('i!st')
    lists = [V.lref(s0), V.lref(ldefs), V.lref(lc), V.lref(lines)]
    facts = [
        ('script', z3.And(is_dict(script), dh(h, script, 'statements'), is_list(s0), h.llen(V.lref(s0)) >= 0)),
        ('function_def', z3.Or(is_none(fdef), z3.And(is_dict(fdef), dh(h, fdef, 'function'), is_dict(fn), dh(h, fn, 'statements'),
                                                      is_list(sf), h.llen(V.lref(sf)) >= 0, dh(h, fn, 'name'),
                                                      z3.And([V.lref(sf) != x for x in lists]), V.dref(fn) != V.dref(fdef)))),
        ('depth', z3.If(is_none(fdef), is_none(depth), z3.And(is_int(depth), V.i(depth) >= 0, V.i(depth) <= h.llen(V.lref(ldefs))))),
        ('lists', z3.And(is_list(ldefs), is_list(lc), is_list(lines), h.llen(V.lref(ldefs)) >= 0, h.llen(V.lref(lc)) >= 0,
                         z3.Distinct(*lists))),
        ('label-index', L.int('label_index') >= 0),
        ('continuation-lines-are-strings', z3.ForAll([i], is_str(h.lget(V.lref(lc), i)))),
        ('statements-are-dicts', z3.ForAll([i], z3.And(stmt_shallow(h, h.lget(V.lref(s0), i)), stmt_shallow(h, h.lget(V.lref(sf), i))))),
        ('label-defs', z3.ForAll([i], z3.Implies(z3.And(i >= 0, i < h.llen(V.lref(ldefs))), ldef_wf(h, h.lget(V.lref(ldefs), i))))),
        ('lines-are-strings', z3.ForAll([i], is_str(h.lget(V.lref(lines), i)))),
    ]
    if L.has('ix_line'):
        facts.append(('ix-line', z3.Implies(h.llen(V.lref(lc)) != 0, is_int(L.term('ix_line')))))
    if L.has('function_line') and L.has('function_line_number'):
        facts.append(('function-position', z3.Implies(z3.Not(is_none(fdef)),
                                                      z3.And(is_str(L.term('function_line')), is_int(L.term('function_line_number'))))))
    return facts


def state_lemmas(L):
    """instances of the quantified typing facts at the places the body looks at"""
    h = L.heap
    ldefs = L.term('label_defs')
    lc = L.term('line_continuation')
    n = h.llen(V.lref(ldefs))
    top = h.lget(V.lref(ldefs), n - 1)
    out = [z3.Implies(n > 0, ldef_wf(h, top))]
    if L.k is not None:
        out.append(is_str(h.lget(V.lref(L.term('lines')), L.k)))
    script = L.term('script')
    fdef = L.term('function_def')
    for lst in (dg(h, script, 'statements'), dg(h, dg(h, fdef, 'function'), 'statements')):
        m = h.llen(V.lref(lst))
        out.append(stmt_shallow(h, h.lget(V.lref(lst), m - 1)))
    return out


def _ldef_elem_hook(ip, gen, j):
    """the generic element of label_defs inspected by the break/continue search is a label definition"""
    frame = gen.f['frame']
    if not frame.qual.endswith('parse_script'):
        return
    ctx = ip.ctx
    ldefs = ctx.to_term(frame.env['label_defs'])
    ctx.assume(ldef_wf(ctx.heap, ctx.heap.lget(V.lref(ldefs), j)))


class ParseScriptBody(ParserFn):
    """parser.parse_script for a single string argument"""
    qual = 'parser.parse_script'
    hooks = {'class:BareScriptParserError': parser_error_ctor, 'first_match_elem': _ldef_elem_hook}

    def params(self, ip):
        ctx = ip.ctx
        return [T(ctx.fresh('script_text', Str)), I(ctx.fresh('start_line_number', Int))]

    def post(self, K, out):
        ctx = K.ctx
        obs = []
        events = ctx.ghost.get('events', [])
        if out.kind == 'raise':
            ip = K.ip
            ok = ip.exc_isinstance(out.exc, 'BareScriptParserError')
            obs.append(('C06.only-parser-errors-escape', ok))
            if ok is True:
                obs += error_position_spec(K, out, events)
            return obs
        # normal end of input
        done = [e for e in events if e.get('kind') == 'loop-done' and e['loop'].endswith('parse_script.loop1')]
        if done:
            env = done[-1]['env']
            h = done[-1]['heap_after']
            fdef = ctx.to_term(env['function_def'])
            lc = ctx.to_term(env['line_continuation'])
            obs.append(('C06.no-block-left-open-at-end-of-input',
                        z3.And(is_none(fdef), h.llen(V.lref(lc)) == 0)))
        return obs

    @property
    def loop_specs(self):
        return {(self.qual, 1): LoopSpec(state_typing, heap='havoc', lemmas=state_lemmas, trusted_invariant=True,
                                         body_check=parser_step_spec,
                                         header='enumerate(lines)')}


def error_position_spec(K, out, events):
    """C06: every error raised by the line loop carries the line number start + ix_line, the logical line, and a column
    inside it"""
    ctx = K.ctx
    f = out.exc.f['fields']
    begins = [e for e in events if e.get('kind') == 'loop-body-begin' and e['loop'].endswith('parse_script.loop1')]
    obs = []
    ln = ctx.to_term(f['line_number']) if 'line_number' in f else VNone
    obs.append(('C06.error-carries-a-line-number', is_int(ln)))
    line = ctx.to_term(f['line']) if 'line' in f else VNone
    col = ctx.to_term(f['column_number']) if 'column_number' in f else VNone
    obs.append(('C06.error-column-inside-the-line', z3.And(is_str(line), is_int(col), V.i(col) >= 1,
                                                            V.i(col) <= z3.Length(V.s(line)) + 1)))
    return obs


def parser_step_spec(L, events):
    """C01 (lowering schema), C10 (comment lines) for the iteration that just ended normally"""
    ctx = L.ctx
    begin = None
    for e in reversed(ctx.ghost['events']):
        if e.get('kind') == 'loop-body-begin' and e['loop'].endswith('parse_script.loop1'):
            begin = e
            break
    h0, h1 = begin['heap'], L.heap
    env0 = begin['env']
    rx = [e for e in events if e.get('kind') == 'regex']
    matched = [e for e in rx if e['matched']]
    parses = [e for e in events if e.get('kind') == 'call' and e['callee'] == 'parser.parse_expression']
    obs = []

    def t0(name):
        return ctx.to_term(env0[name])

    def t1(name):
        return ctx.to_term(L.env[name])
    state_vars = ['line_continuation', 'function_def', 'function_label_def_depth', 'label_defs', 'label_index']
    if rx and rx[0]['name'].endswith('_R_SCRIPT_COMMENT') and rx[0]['matched']:
        same = z3.And([t0(v) == t1(v) for v in state_vars if v in env0 and v in L.env])
        return [('C10.comment-or-blank-line-changes-nothing',
                 z3.And(same, sp_.frame_same(h0, h1, h0.alloc), z3.BoolVal(len(parses) == 0)))]
    if not matched:
        return []
    last = matched[-1]
    name = last['name'].split('.')[-1]
    m = last['match']

    def grp(k):
        return ctx.to_term(m.f['groups'][k]) if k in m.f['groups'] else None
    if any(p.get('outcome') is None or p['outcome'].kind != 'return' for p in parses):
        return []
    E = ctx.to_term(parses[0]['outcome'].value) if parses else None
    stmts = t1('statements')
    ldefs = t0('label_defs')
    n0 = V.i(t0('label_index'))
    n1 = V.i(t1('label_index'))
    nld0 = h0.llen(V.lref(ldefs))
    top0 = h0.lget(V.lref(ldefs), nld0 - 1)
    line = t1('line') if 'line' in L.env else None
    start = ctx.to_term(ctx.ghost['K'].args[1])

    def neg(e):
        return {'unary': {'op': '!', 'expr': e}}

    def ldefs_same_length():
        i = z3.Int('i!ls')
        return z3.And(h1.llen(V.lref(ldefs)) == nld0,
                      z3.ForAll([i], z3.Implies(z3.And(i >= 0, i < nld0), h1.lget(V.lref(ldefs), i) == h0.lget(V.lref(ldefs), i))))

    def popped():
        i = z3.Int('i!pop')
        return z3.And(h1.llen(V.lref(ldefs)) == nld0 - 1,
                      z3.ForAll([i], z3.Implies(z3.And(i >= 0, i < nld0 - 1), h1.lget(V.lref(ldefs), i) == h0.lget(V.lref(ldefs), i))))

    def pushed(pat):
        return appended(h0, h1, ldefs, [pat])
    if name == '_R_SCRIPT_IF_BEGIN' and E is not None:
        ns = h0.llen(V.lref(stmts))
        st = h1.lget(V.lref(stmts), ns)
        newdef = h1.lget(V.lref(ldefs), nld0)
        ifthen = dg(h1, newdef, 'if')
        obs.append(('C01.if.lowering', z3.And(
            appended(h0, h1, stmts, [{'jump': {'label': lbl('If', n0), 'expr': neg(E)}}]),
            h1.llen(V.lref(ldefs)) == nld0 + 1, tm(h1, newdef, {'if': dg(h1, newdef, 'if')}),
            dg(h1, ifthen, 'jump') == dg(h1, st, 'jump'),
            dg(h1, ifthen, 'done') == VStr(lbl('Done', n0)), dg(h1, ifthen, 'hasElse') == VBool(False),
            n1 == n0 + 1)))
    elif name == '_R_SCRIPT_IF_ELSE_IF' and E is not None:
        ifthen0 = dg(h0, top0, 'if')
        done = V.s(dg(h0, ifthen0, 'done'))
        prev = V.s(dg(h0, dg(h0, ifthen0, 'jump'), 'label'))
        ns = h0.llen(V.lref(stmts))
        st3 = h1.lget(V.lref(stmts), ns + 2)
        obs.append(('C01.elif.lowering', z3.And(
            appended(h0, h1, stmts, [{'jump': {'label': done}}, {'label': prev},
                                     {'jump': {'label': lbl('If', n0), 'expr': neg(E)}}]),
            dg(h1, ifthen0, 'jump') == dg(h1, st3, 'jump'), ldefs_same_length(), n1 == n0 + 1)))
    elif name == '_R_SCRIPT_IF_ELSE':
        ifthen0 = dg(h0, top0, 'if')
        done = V.s(dg(h0, ifthen0, 'done'))
        prev = V.s(dg(h0, dg(h0, ifthen0, 'jump'), 'label'))
        obs.append(('C01.else.lowering', z3.And(
            appended(h0, h1, stmts, [{'jump': {'label': done}}, {'label': prev}]),
            dg(h1, ifthen0, 'hasElse') == VBool(True), ldefs_same_length(), n1 == n0)))
    elif name == '_R_SCRIPT_IF_END':
        ifthen0 = dg(h0, top0, 'if')
        done = V.s(dg(h0, ifthen0, 'done'))
        jump = dg(h0, ifthen0, 'jump')
        had_else = V.b(dg(h0, ifthen0, 'hasElse'))
        obs.append(('C01.endif.lowering', z3.And(
            appended(h0, h1, stmts, [{'label': done}]), popped(),
            # without an else arm the pending conditional jump is retargeted to the end label
            z3.If(had_else, dg(h1, jump, 'label') == dg(h0, jump, 'label'), dg(h1, jump, 'label') == VStr(done)),
            n1 == n0)))
    elif name == '_R_SCRIPT_WHILE_BEGIN' and E is not None:
        newdef = h1.lget(V.lref(ldefs), nld0)
        wd = dg(h1, newdef, 'while')
        obs.append(('C01.while.lowering', z3.And(
            appended(h0, h1, stmts, [{'jump': {'label': lbl('Done', n0), 'expr': neg(E)}}, {'label': lbl('Loop', n0)}]),
            h1.llen(V.lref(ldefs)) == nld0 + 1, dh(h1, newdef, 'while'),
            dg(h1, wd, 'loop') == VStr(lbl('Loop', n0)), dg(h1, wd, 'done') == VStr(lbl('Done', n0)),
            dg(h1, wd, 'expr') == E, n1 == n0 + 1)))
        # `continue` must lead to a re-test of the loop condition: its target may not be the label that follows
        # the header test
        obs.append(('C01.while.continue-retests-condition', dg(h1, wd, 'continue') != dg(h1, wd, 'loop')))
    elif name == '_R_SCRIPT_WHILE_END':
        wd = dg(h0, top0, 'while')
        obs.append(('C01.endwhile.lowering', z3.And(
            dh(h0, top0, 'while'),
            appended(h0, h1, stmts, [{'jump': {'label': V.s(dg(h0, wd, 'loop')), 'expr': dg(h0, wd, 'expr')}},
                                     {'label': V.s(dg(h0, wd, 'done'))}]),
            popped(), n1 == n0)))
    elif name == '_R_SCRIPT_FOR_BEGIN' and E is not None:
        newdef = h1.lget(V.lref(ldefs), nld0)
        fd = dg(h1, newdef, 'for')
        gi = grp('index')
        index = z3.If(z3.And(is_str(gi), z3.Length(V.s(gi)) > 0), V.s(gi), lbl('Index', n0)) if gi is not None else lbl('Index', n0)
        value = V.s(grp('value'))
        values, length = lbl('Values', n0), lbl('Length', n0)

        def var(nm):
            return {'variable': nm}
        obs.append(('C01.for.lowering', z3.And(
            appended(h0, h1, stmts, [
                {'expr': {'name': values, 'expr': E}},
                {'expr': {'name': length, 'expr': {'function': {'name': 'arrayLength', 'args': [var(values)]}}}},
                {'jump': {'label': lbl('Done', n0), 'expr': neg(var(length))}},
                {'expr': {'name': index, 'expr': {'number': 0}}},
                {'label': lbl('Loop', n0)},
                {'expr': {'name': value, 'expr': {'function': {'name': 'arrayGet', 'args': [var(values), var(index)]}}}}]),
            h1.llen(V.lref(ldefs)) == nld0 + 1, dh(h1, newdef, 'for'),
            dg(h1, fd, 'loop') == VStr(lbl('Loop', n0)), dg(h1, fd, 'continue') == VStr(lbl('Continue', n0)),
            dg(h1, fd, 'done') == VStr(lbl('Done', n0)), dg(h1, fd, 'index') == VStr(index),
            dg(h1, fd, 'length') == VStr(length), z3.Not(dh(h1, fd, 'hasContinue')), n1 == n0 + 1)))
    elif name == '_R_SCRIPT_FOR_END':
        fd = dg(h0, top0, 'for')
        index, length = V.s(dg(h0, fd, 'index')), V.s(dg(h0, fd, 'length'))
        tail = [{'expr': {'name': index, 'expr': {'binary': {'op': '+', 'left': {'variable': index}, 'right': {'number': 1}}}}},
                {'jump': {'label': V.s(dg(h0, fd, 'loop')),
                          'expr': {'binary': {'op': '<', 'left': {'variable': index}, 'right': {'variable': length}}}}},
                {'label': V.s(dg(h0, fd, 'done'))}]
        has_cont = z3.And(dh(h0, fd, 'hasContinue'), sp_.py_truthy(h0, dg(h0, fd, 'hasContinue')))
        obs.append(('C01.endfor.lowering', z3.And(dh(h0, top0, 'for'), popped(), n1 == n0)))
        obs.append(('C01.endfor.continue-label-emitted-when-used',
                    z3.Implies(has_cont, appended(h0, h1, stmts, [{'label': V.s(dg(h0, fd, 'continue'))}] + tail))))
        obs.append(('C01.endfor.no-continue-label-when-unused',
                    z3.Implies(z3.Not(has_cont), appended(h0, h1, stmts, tail))))
    elif name in ('_R_SCRIPT_BREAK', '_R_SCRIPT_CONTINUE'):
        ns = h0.llen(V.lref(stmts))
        st = h1.lget(V.lref(stmts), ns)
        target = V.s(dg(h1, dg(h1, st, 'jump'), 'label'))
        p = z3.Int('p!bc')
        q = z3.Int('q!bc')
        fdef = t0('function_def')
        depth = z3.If(is_none(fdef), 0, V.i(t0('function_label_def_depth')))
        d = h0.lget(V.lref(ldefs), p)
        dq = h0.lget(V.lref(ldefs), q)
        key = h0.dkey(V.dref(d), 0)
        loopdef = h0.dget(V.dref(d), key)
        field = 'done' if name == '_R_SCRIPT_BREAK' else 'continue'
        innermost = z3.And(p >= depth, p < nld0, z3.Not(dh(h0, d, 'if')),
                           z3.ForAll([q], z3.Implies(z3.And(q > p, q < nld0), dh(h0, dq, 'if'))))
        obs.append((f'C01.{field == "done" and "break" or "continue"}.binds-to-the-innermost-loop-of-the-same-function',
                    z3.And(h1.llen(V.lref(stmts)) == ns + 1, tm(h1, st, {'jump': {'label': target}}),
                           z3.Exists([p], z3.And(innermost, target == V.s(h0.dget(V.dref(loopdef), sv(field))))),
                           n1 == n0)))
    return obs


WHILE_CONTINUE_WITNESS = """
from bare_script import parse_script, execute_script
from bare_script.runtime import BareScriptRuntimeError
text = 'n = 0\\nc = true\\nwhile c:\\n    n = n + 1\\n    c = false\\n    continue\\nendwhile\\nreturn n\\n'
model = parse_script(text)
try:
    value = execute_script(model, {'maxStatements': 1000})
    outcome = 'returned ' + repr(value)
    violates = value != 1
except BareScriptRuntimeError as exc:
    outcome = 'BareScriptRuntimeError: ' + str(exc)
    violates = True
jumps = [s['jump']['label'] for s in model['statements'] if 'jump' in s and 'expr' not in s['jump']]
result = {'program': text, 'structured_meaning': 'the loop body runs once and the script returns 1',
          'observed': outcome, 'continue_jumps_to': jumps, 'violates': violates}
"""

ParseScriptBody.native_witness = {'C01.while.continue-retests-condition': WHILE_CONTINUE_WITNESS}
PARSE_SCRIPT_BODY = ParseScriptBody()
PARSE_SCRIPT_BODY.callee_contracts = {PARSE_EXPRESSION.qual: PARSE_EXPRESSION}


# -- native witness programs (bounded stand-ins; consulted when an obligation is undecided or the function is out of reach)
_PW = """
from bare_script import parse_script, execute_script
from bare_script.parser import BareScriptParserError
from bare_script.runtime import BareScriptRuntimeError
bad = []
def run(text, expect, what):
    try:
        got = execute_script(parse_script(text), {'globals': {}, 'maxStatements': 100000})
    except Exception as exc:
        got = 'EXC ' + type(exc).__name__ + ': ' + str(exc)[:80]
    if got != expect:
        bad.append({'program': text, 'expected': repr(expect), 'observed': repr(got), 'what': what})
"""

LOWERING_WITNESS = _PW + """
run('out = arrayNew()\\nfor aa in arrayNew(1, 2, 3):\\n    for bb in arrayNew(10, 20, 30):\\n        if bb == 20:\\n            break\\n        endif\\n        arrayPush(out, aa + bb)\\n    endfor\\n    arrayPush(out, aa)\\nendfor\\nreturn out\\n',
    [11.0, 1.0, 12.0, 2.0, 13.0, 3.0], 'break binds to the innermost loop')
run('out = arrayNew()\\nfor aa in arrayNew(1, 2):\\n    for bb in arrayNew(10, 20, 30):\\n        if bb == 20:\\n            continue\\n        endif\\n        arrayPush(out, aa + bb)\\n    endfor\\nendfor\\nreturn out\\n',
    [11.0, 31.0, 12.0, 32.0], 'continue binds to the innermost loop')
run('function fn():\\n    out = arrayNew()\\n    ii = 0\\n    while ii < 3:\\n        ii = ii + 1\\n        for bb in arrayNew(1, 2):\\n            if bb == 2:\\n                break\\n            endif\\n            arrayPush(out, ii * 10 + bb)\\n        endfor\\n    endwhile\\n    return out\\nendfunction\\nreturn fn()\\n',
    [11.0, 21.0, 31.0], 'for nested in while inside a function')
run('xx = 3\\nif xx == 1:\\n    rr = 1\\nelif xx == 2:\\n    rr = 2\\nelif xx == 3:\\n    rr = 3\\nelse:\\n    rr = 4\\nendif\\nreturn rr\\n', 3.0, 'if chain runs the first true branch')
run('xx = 9\\nif xx == 1:\\n    rr = 1\\nelif xx == 2:\\n    rr = 2\\nelse:\\n    rr = 4\\nendif\\nreturn rr\\n', 4.0, 'else branch')
run('xx = 9\\nrr = 0\\nif xx == 1:\\n    rr = 1\\nelif xx == 2:\\n    rr = 2\\nendif\\nreturn rr\\n', 0.0, 'if chain without else')
run('nn = 0\\ncc = objectNew()\\nwhile cc:\\n    nn = nn + 1\\n    if nn == 3:\\n        break\\n    endif\\nendwhile\\nreturn nn\\n', 3.0, 'loop condition re-tested with BareScript truthiness')
run('out = arrayNew()\\nfor vv, ix in arrayNew(5, 6):\\n    arrayPush(out, ix)\\n    arrayPush(out, vv)\\nendfor\\nreturn out\\n', [0, 5.0, 1.0, 6.0], 'for with index')
run('nn = 0\\nfor vv in arrayNew():\\n    nn = nn + 1\\nendfor\\nreturn nn\\n', 0.0, 'for over an empty array')
result = {'violates': bool(bad), 'counterexamples': bad[:2]}
"""

ERROR_WITNESS = _PW + """
cases = [('xx = 1\\nif (1 + :\\nendif', 2, 'if (1 + :'), ('if 1:\\nelif 1 + :\\nendif', 2, 'elif 1 + :'), ('  while 1 +:\\nendwhile', 1, '  while 1 +:'),
         ('aa = 1\\nfor xx in arrayNew(1, 2) $:\\nendfor', 2, 'for xx in arrayNew(1, 2) $:'), ('aa = 1 + \\\\', 1, None), ('aa = 1\\n\\\\', 2, None),
         ('function fn():\\n  aa = 1', 1, 'function fn():'), ('if 1:\\n  aa = 1', 1, 'if 1:'), ('aa = 1\\nreturn 1 +', 2, 'return 1 +'),
         ('aa = 1\\njumpif (1 +) lbl', 2, 'jumpif (1 +) lbl'), ('aa = (1', 1, 'aa = (1'), ('endif', 1, 'endif'), ('foo(1,)', 1, 'foo(1,)'), ('foo(,)', 1, 'foo(,)')]
for text, line_number, line in cases:
    try:
        parse_script(text)
        bad.append({'text': text, 'observed': 'accepted', 'expected': 'BareScriptParserError'})
    except BareScriptParserError as exc:
        ok = exc.line_number == line_number and (line is None or exc.line == line) and 1 <= exc.column_number <= len(exc.line) + 1
        if ok and line is not None and '$' in line:
            ok = abs(exc.column_number - (line.index('$') + 1)) <= 1
        if ok and line is not None and line.endswith('+ :'):
            ok = exc.column_number >= line.index('+') + 1
        if not ok:
            bad.append({'text': text, 'observed': [exc.error, exc.line_number, exc.column_number, exc.line], 'expected': [line_number, line]})
    except Exception as exc:
        bad.append({'text': text, 'observed': type(exc).__name__ + ': ' + str(exc)[:80], 'expected': 'BareScriptParserError'})
result = {'violates': bool(bad), 'counterexamples': bad[:2]}
"""

ParseScriptBody.native_witness = {'C01.while.continue-retests-condition': WHILE_CONTINUE_WITNESS,
                                  'C01.lowering': LOWERING_WITNESS, 'binds-to-the-innermost-loop': LOWERING_WITNESS,
                                  'C06.': ERROR_WITNESS}
ParseScriptBody.fallback_skip = ('C01.while.continue-retests-condition',)     # a recorded known finding
