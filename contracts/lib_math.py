"""contracts.lib_math — math*, number* semantic clauses. Transcendental functions are uninterpreted real functions
shared by code model and specification (plumbing proof: validation, domain checks, failure values)."""
import z3
from pyvc.core import (V, VNone, VBool, VInt, VFloat, VStr, is_int, is_float, is_none, Int, Real, trunc)
from pyvc.models_calls import mathfn, PARSE_FLOAT_OK, PARSE_FLOAT, PARSE_FLOAT_FINITE, PARSE_INT_OK, PARSE_INT
from pyvc.models_ops import POW, FLOAT_MAX_INT
from .lib import LibFn
from .specs import num, as_index, is_number


def fits(v):
    return z3.Implies(is_int(v), z3.And(V.i(v) < FLOAT_MAX_INT, V.i(v) > -FLOAT_MAX_INT))


def unary(name, dom=None):
    def sem(sp):
        x = num(sp.a[0])
        ok = fits(sp.a[0])
        if dom is not None:
            ok = z3.And(ok, dom(x))
        return {'ok': ok, 'ret': ('val', VFloat(mathfn(name)(x)))}
    return sem


def m_abs(sp):
    v = sp.a[0]
    return {'ret': ('val', z3.If(is_int(v), VInt(z3.If(V.i(v) >= 0, V.i(v), -V.i(v))), VFloat(z3.If(V.r(v) >= 0, V.r(v), -V.r(v)))))}


def m_atan2(sp):
    return {'ok': z3.And(fits(sp.a[0]), fits(sp.a[1])), 'ret': ('val', VFloat(mathfn('atan2', 2)(num(sp.a[0]), num(sp.a[1]))))}


def m_floor(sp):
    v = sp.a[0]
    return {'ret': ('val', VInt(z3.If(is_int(v), V.i(v), z3.ToInt(V.r(v)))))}


def m_ceil(sp):
    v = sp.a[0]
    fl = z3.ToInt(V.r(v))
    return {'ret': ('val', VInt(z3.If(is_int(v), V.i(v), z3.If(z3.ToReal(fl) == V.r(v), fl, fl + 1))))}


def m_log(sp):
    x, b = num(sp.a[0]), num(sp.a[1])
    return {'ok': z3.And(b != 1, fits(sp.a[0]), fits(sp.a[1])), 'ret': ('val', VFloat(mathfn('log')(x) / mathfn('log')(b)))}


def m_sign(sp):
    x = num(sp.a[0])
    return {'ret': ('val', VInt(z3.If(x < 0, -1, z3.If(x == 0, 0, 1))))}


def m_round(sp):
    x, dv = sp.a[0], sp.a[1]
    d = as_index(dv)
    p = POW(z3.RealVal(10), z3.ToReal(d))
    # 10 ** digits is an int for an int spelling of digits and a float for a float spelling: the same number
    m = z3.If(is_int(dv), z3.ToReal(z3.ToInt(p)), p)
    y = num(x) * m + z3.If(num(x) >= 0, z3.RealVal('1/2'), z3.RealVal('-1/2'))
    sc = num(x) * m
    big = z3.RealVal(2 ** 1000)
    guard = z3.And(sc < big, sc > -big, m < big)
    return {'ok': m != 0, 'guard': guard, 'ret': ('val', VFloat(z3.ToReal(trunc(y)) / m))}


def pow10_facts(K):
    """10 ** 0 == 1 and 10 ** d >= 1 is an integer for integral d >= 0 (facts about exponentiation, trusted)"""
    d = z3.Real('d!pow')
    return [('pow10-zero', POW(z3.RealVal(10), z3.RealVal(0)) == 1),
            ('pow10-positive', z3.ForAll([d], z3.Implies(d >= 0, POW(z3.RealVal(10), d) >= 1))),
            ('pow10-integral', z3.ForAll([d], z3.Implies(z3.And(d >= 0, z3.IsInt(d)), z3.IsInt(POW(z3.RealVal(10), d)))))]


def n_parse_float(sp):
    s = V.s(sp.a[0])
    return {'ret': ('val', z3.If(z3.And(PARSE_FLOAT_OK(s), PARSE_FLOAT_FINITE(s)), VFloat(PARSE_FLOAT(s)), VNone))}


def n_parse_int(sp):
    s, r = V.s(sp.a[0]), as_index(sp.a[1])
    return {'ret': ('val', z3.If(PARSE_INT_OK(s, r), VInt(PARSE_INT(s, r)), VNone))}


def pow10_instances(vals):
    p = POW(z3.RealVal(10), z3.ToReal(as_index(vals[1])))
    return [z3.Implies(as_index(vals[1]) >= 0, z3.And(z3.IsInt(p), p >= 1))]


LIB = [
    LibFn('mathAbs', 'library._math_abs', '_MATH_ABS_ARGS', None, m_abs),
    LibFn('mathAcos', 'library._math_acos', '_MATH_ACOS_ARGS', None, unary('acos', lambda x: z3.And(x >= -1, x <= 1))),
    LibFn('mathAsin', 'library._math_asin', '_MATH_ASIN_ARGS', None, unary('asin', lambda x: z3.And(x >= -1, x <= 1))),
    LibFn('mathAtan', 'library._math_atan', '_MATH_ATAN_ARGS', None, unary('atan')),
    LibFn('mathAtan2', 'library._math_atan2', '_MATH_ATAN2_ARGS', None, m_atan2),
    LibFn('mathCeil', 'library._math_ceil', '_MATH_CEIL_ARGS', None, m_ceil),
    LibFn('mathCos', 'library._math_cos', '_MATH_COS_ARGS', None, unary('cos')),
    LibFn('mathFloor', 'library._math_floor', '_MATH_FLOOR_ARGS', None, m_floor),
    LibFn('mathLn', 'library._math_ln', '_MATH_LN_ARGS', None, unary('log')),
    LibFn('mathLog', 'library._math_log', '_MATH_LOG_ARGS', None, m_log),
    LibFn('mathRound', 'library._math_round', '_MATH_ROUND_ARGS', None, m_round, facts=pow10_facts),
    LibFn('mathSign', 'library._math_sign', '_MATH_SIGN_ARGS', None, m_sign),
    LibFn('mathSin', 'library._math_sin', '_MATH_SIN_ARGS', None, unary('sin')),
    LibFn('mathSqrt', 'library._math_sqrt', '_MATH_SQRT_ARGS', None, unary('sqrt')),
    LibFn('mathTan', 'library._math_tan', '_MATH_TAN_ARGS', None, unary('tan')),
    LibFn('numberParseFloat', 'library._number_parse_float', '_NUMBER_PARSE_FLOAT_ARGS', None, n_parse_float,
          inline=('value.value_parse_number',)),
    LibFn('numberParseInt', 'library._number_parse_int', '_NUMBER_PARSE_INT_ARGS', None, n_parse_int,
          inline=('value.value_parse_integer',)),
]

for _c in LIB:
    if _c.script_name == 'mathRound':
        _c.fact_instances = pow10_instances


# fixed native witness for the number parsers (used when a failed obligation has no replayable counter-model: the parse
# functions are uninterpreted in the logic, so the ground replay cannot evaluate their clauses)
from .value_c import NUMBER_TEXT_WITNESS        # noqa: E402
for _c in LIB:
    if _c.script_name in ('numberParseFloat', 'numberParseInt'):
        _c.native_witness = {'fails-only-when-invalid': NUMBER_TEXT_WITNESS, 'returns-only-when-valid': NUMBER_TEXT_WITNESS,
                             'result': NUMBER_TEXT_WITNESS}
