"""contracts.data_c — data.py (C19, partial): filter_data, add_calculated_field, top_data, _sort_data_fn; the C09 clause
that expression evaluation inside them is counted in the caller's statement budget."""
import z3
from pyvc.core import (V, VNone, VBool, VInt, VStr, VList, VDict, is_none, is_bool, is_int, is_float, is_str, is_list, is_dict,
                       Str, Int, Bool, Heap, HeapSort, wf_value, Val, C, S, B, I, R, T, Obj)
from pyvc.contract import FnContract, Outcome
from pyvc.models_loops import LoopSpec
from pyvc.models_calls import ufun
from . import specs as sp_
from .runtime_c import (MH, MB, mask, masked_fresh, frozen, EVALUATE_EXPRESSION, PARSED_EXPR, wf_options, wf_run_options,
                        count_of, host_callable_model)
from .parser_c import PARSE_EXPRESSION, ParseExpression
from .value_c import BASE
from .lib_cmp import cmp_axioms

KEEP = ufun('ROW_KEPT', Int, Bool)          # ghost: the filter expression was truthy for row i
ROWVAL = ufun('ROW_VALUE', Int, V)          # ghost: the value the expression evaluated to for row i
KEPT_BEFORE = ufun('KEPT_BEFORE', Int, Int)  # ghost: number of kept rows among the first k
ROWAT = ufun('ROW_VISITED', Int, V)         # ghost: the row object visited by iteration i


class ImportEvaluate:
    """data._import_evaluate_expression(): the lazy import is trusted to return runtime.evaluate_expression"""
    qual = 'data._import_evaluate_expression'

    def apply(self, ip, args, kwargs):
        return Obj('func', qual='runtime.evaluate_expression')


class ParseExpressionForData(ParseExpression):
    """parse_expression as used by the data helpers: a fresh, schema-valid expression model or a parser error"""

    def havoc_heap(self, ip, h0):
        fresh = ip.ctx.fresh_heap('pexpr')
        ip.ctx.assume(fresh.alloc >= h0.alloc)
        return ip.ctx.keep_owned(h0, mask_above(h0, fresh))

    def post(self, K, out):
        if out.kind == 'raise':
            return []
        v = K.ctx.to_term(out.value)
        return [('parsed', z3.And(PARSED_EXPR(v), is_dict(v), V.dref(v) >= K.heap.alloc, V.dref(v) < K.heap_after.alloc))]


def mask_above(h0, fresh):
    """allocation-only callee: objects existing before the call are unchanged"""
    r = z3.Int('r!ab')

    def m(old, new):
        return z3.Lambda([r], z3.If(r < h0.alloc, z3.Select(old, r), z3.Select(new, r)))
    return Heap(m(h0.LEN, fresh.LEN), m(h0.ELS, fresh.ELS), m(h0.HAS, fresh.HAS), m(h0.VAL, fresh.VAL), m(h0.NK, fresh.NK),
                m(h0.KEY, fresh.KEY), fresh.alloc)


def rows_wf(h, data):
    i = z3.Int('i!rows')
    r = V.lref(data)
    return z3.And(is_list(data), r >= MB, r < h.alloc, h.llen(r) >= 0,
                  z3.ForAll([i], z3.Implies(z3.And(i >= 0, i < h.llen(r)),
                                            z3.And(is_dict(h.lget(r, i)), V.dref(h.lget(r, i)) >= MB, V.dref(h.lget(r, i)) < h.alloc))))


def rows_distinct_from(h, data, o):
    i = z3.Int('i!rd')
    g = h.dget(V.dref(o), z3.StringVal('globals'))
    row = h.lget(V.lref(data), i)
    return z3.ForAll([i], z3.Implies(z3.And(i >= 0, i < h.llen(V.lref(data))),
                                     z3.And(V.dref(row) != V.dref(o), V.dref(row) != V.dref(g))))


class DataFn(FnContract):
    frame = 'havoc'
    callable_model = staticmethod(host_callable_model)

    def base(self, ip):
        ctx = ip.ctx
        base = ctx.heap
        ctx.assume(z3.And(MB >= 0, MB <= base.alloc))
        ctx.heap = mask(base)

    def eval_calls(self, ctx):
        return [e for e in ctx.ghost.get('events', []) if e.get('kind') == 'call' and e['callee'] == 'runtime.evaluate_expression']

    def contained(self, K, out):
        """the data helpers may fail with a parser error for a bad expression text or a runtime error from evaluation;
        anything else would surface as a failed library call (null)"""
        ip = K.ip
        oks = [ip.exc_isinstance(out.exc, n) for n in ('BareScriptRuntimeError', 'BareScriptParserError')]
        if any(x is True for x in oks):
            return True
        parts = [x for x in oks if x is not False]
        return z3.Or(parts) if parts else False


class FilterData(DataFn):
    qual = 'data.filter_data'

    def params(self, ip):
        self.base(ip)
        ctx = ip.ctx
        options = ctx.fresh('options', V)
        ctx.ghost['options_terms'] = [options]
        return [S(ctx.fresh('data', V)), T(ctx.fresh('expr', Str)), S(ctx.fresh('variables', V)), S(options)]

    def pre(self, K):
        h = K.heap
        v = K.term(2)
        return [('rows', rows_wf(h, K.term(0))), ('variables', z3.Or(is_none(v), z3.And(is_dict(v), V.dref(v) >= MB, V.dref(v) < h.alloc))),
                ('options', z3.Or(is_none(K.term(3)), wf_run_options(h, K.term(3)))), ('model-frozen', frozen(h))]

    def axioms(self, K):
        return [('KEPT-base', KEPT_BEFORE(0) == 0)]

    def post(self, K, out):
        ctx = K.ctx
        h0, h1 = K.heap, K.heap_after
        obs = []
        if out.kind == 'raise':
            return [('C19.only-expression-errors-escape', self.contained(K, out))]
        r = ctx.to_term(out.value)
        if ctx.ghost.get('K') is K:
            done = [e for e in ctx.ghost.get('events', []) if e.get('kind') == 'loop-done' and e['loop'].endswith('filter_data.loop0')]
            if done:
                n = done[-1]['k']          # the number of rows visited
                i = z3.Int('i!fd')
                rr = V.lref(r)
                obs.append(('C19.filter-keeps-exactly-the-truthy-rows-in-order', z3.And(
                    is_list(r), rr >= h0.alloc, h1.llen(rr) == KEPT_BEFORE(n),
                    z3.ForAll([i], z3.Implies(z3.And(i >= 0, i < n, KEEP(i)), h1.lget(rr, KEPT_BEFORE(i)) == ROWAT(i))))))
        o = K.term(3)
        if ctx.ghost.get('K') is K:
            done = [e for e in ctx.ghost.get('events', []) if e.get('kind') == 'loop-done' and e['loop'].endswith('.loop0')]
            if done:
                eo = ctx.to_term(done[-1]['env']['eval_options'])
                # the statements run by the row evaluations are counted in eval_options: it is the caller's options object, or
                # its count is carried back before returning
                obs.append(('C09.evaluation-is-counted-in-the-callers-budget',
                            z3.Implies(z3.And(is_dict(o), h0.dhas(V.dref(o), z3.StringVal('statementCount')), is_dict(eo),
                                              h1.dhas(V.dref(eo), z3.StringVal('statementCount'))),
                                       z3.Or(eo == o, h1.dget(V.dref(o), z3.StringVal('statementCount')) ==
                                             h1.dget(V.dref(eo), z3.StringVal('statementCount'))))))
        return obs

    @property
    def loop_specs(self):
        def inv(L):
            K = L.ctx.ghost['K']
            h0, h = K.heap, L.heap
            data = K.term(0)
            res = L.term('result')
            rr = V.lref(res)
            n = h0.llen(V.lref(data))
            i = z3.Int('i!fdi')
            eo = L.term('eval_options')
            return [('result-fresh', z3.And(is_list(res), rr >= h0.alloc, rr < h.alloc)),
                    ('kept-count', z3.And(h.llen(rr) == KEPT_BEFORE(L.k), KEPT_BEFORE(L.k) >= 0, L.k >= 0)),
                    ('kept-rows-in-order', z3.ForAll([i], z3.Implies(z3.And(i >= 0, i < L.k, KEEP(i)),
                                                                      h.lget(rr, KEPT_BEFORE(i)) == ROWAT(i)))),
                    ('kept-count-monotone', z3.ForAll([i], z3.Implies(z3.And(i >= 0, i <= L.k), z3.And(KEPT_BEFORE(i) >= 0, KEPT_BEFORE(i) <= KEPT_BEFORE(L.k))))),
                    ('kept-slots-distinct', z3.ForAll([i], z3.Implies(z3.And(i >= 0, i < L.k, KEEP(i)), KEPT_BEFORE(i) < KEPT_BEFORE(L.k)))),
                    ('rows', rows_wf(h, data)), ('model-frozen', frozen(h)),
                    ('eval-options', z3.Or(is_none(eo), wf_options(h, eo)))]

        def lem(L):
            K = L.ctx.ghost['K']
            h = L.heap
            row = h.lget(V.lref(K.term(0)), L.k)
            return [KEPT_BEFORE(L.k + 1) == KEPT_BEFORE(L.k) + z3.If(KEEP(L.k), 1, 0), KEPT_BEFORE(0) == 0,
                    z3.Implies(L.k < h.llen(V.lref(K.term(0))), z3.And(is_dict(row), V.dref(row) >= MB, V.dref(row) < h.alloc))]

        def body(L, events):
            ctx = L.ctx
            K = ctx.ghost['K']
            calls = [e for e in events if e.get('kind') == 'call' and e['callee'] == 'runtime.evaluate_expression']
            if len(calls) != 1 or calls[0]['outcome'].kind != 'return':
                return [('C19.expression-evaluated-once-per-row', False)]
            ev = calls[0]
            row = ctx.to_term(L.env['row'])
            # ghost definitions for this iteration
            ctx.assume(KEEP(L.k) == sp_.truthy(ev['heap_after'], ctx.to_term(ev['outcome'].value)))
            ctx.assume(ROWAT(L.k) == row)
            return [('C19.expression-evaluated-once-per-row-with-the-row-as-locals', ctx.to_term(ev['args'][2]) == row)]
        def owned(L):
            return [('l', z3.simplify(V.lref(L.term('result'))))]
        return {(self.qual, 0): LoopSpec(inv, heap='havoc', lemmas=lem, body_check=body, keeps_owned=True, mk_heap=masked_fresh,
                                         owned=owned, iter_unmodified='assume')}


def self_count_floor(ctx, o, h0):
    return count_of(h0, o)


FILTER_DATA = FilterData()
_CALLEES = {EVALUATE_EXPRESSION.qual: EVALUATE_EXPRESSION, 'parser.parse_expression': ParseExpressionForData(),
            'data._import_evaluate_expression': ImportEvaluate()}
FILTER_DATA.callee_contracts = dict(_CALLEES)


# ---------------------------------------------------------------------------------------------
# add_calculated_field
# ---------------------------------------------------------------------------------------------
class AddCalculatedField(DataFn):
    qual = 'data.add_calculated_field'

    def params(self, ip):
        self.base(ip)
        ctx = ip.ctx
        options = ctx.fresh('options', V)
        ctx.ghost['options_terms'] = [options]
        return [S(ctx.fresh('data', V)), T(ctx.fresh('field_name', Str)), T(ctx.fresh('expr', Str)), S(ctx.fresh('variables', V)), S(options)]

    def pre(self, K):
        h = K.heap
        v = K.term(3)
        return [('rows', rows_wf(h, K.term(0))), ('variables', z3.Or(is_none(v), z3.And(is_dict(v), V.dref(v) >= MB, V.dref(v) < h.alloc))),
                ('options', z3.Or(is_none(K.term(4)), wf_run_options(h, K.term(4)))), ('model-frozen', frozen(h)),
                ('rows-are-not-the-options-object', rows_distinct_from(h, K.term(0), K.term(4)))]

    def post(self, K, out):
        ctx = K.ctx
        h0, h1 = K.heap, K.heap_after
        if out.kind == 'raise':
            return [('C19.only-expression-errors-escape', self.contained(K, out))]
        obs = [('C19.returns-the-same-data-array', ctx.to_term(out.value) == K.term(0))]
        o = K.term(4)
        if ctx.ghost.get('K') is K:
            done = [e for e in ctx.ghost.get('events', []) if e.get('kind') == 'loop-done' and e['loop'].endswith('.loop0')]
            if done:
                eo = ctx.to_term(done[-1]['env']['eval_options'])
                obs.append(('C09.evaluation-is-counted-in-the-callers-budget',
                            z3.Implies(z3.And(is_dict(o), h0.dhas(V.dref(o), z3.StringVal('statementCount')), is_dict(eo),
                                              h1.dhas(V.dref(eo), z3.StringVal('statementCount'))),
                                       z3.Or(eo == o, h1.dget(V.dref(o), z3.StringVal('statementCount')) ==
                                             h1.dget(V.dref(eo), z3.StringVal('statementCount'))))))
        return obs

    @property
    def loop_specs(self):
        def inv(L):
            K = L.ctx.ghost['K']
            h = L.heap
            eo = L.term('eval_options')
            return [('rows', rows_wf(h, K.term(0))), ('model-frozen', frozen(h)), ('eval-options', z3.Or(is_none(eo), wf_options(h, eo)))]

        def lem(L):
            K = L.ctx.ghost['K']
            h = L.heap
            row = h.lget(V.lref(K.term(0)), L.k)
            o = K.term(4)
            g = K.heap.dget(V.dref(o), z3.StringVal('globals'))
            return [z3.Implies(L.k < h.llen(V.lref(K.term(0))), z3.And(is_dict(row), V.dref(row) >= MB, V.dref(row) < h.alloc,
                                                                        V.dref(row) != V.dref(o), V.dref(row) != V.dref(g),
                                                                        V.dref(row) < K.heap.alloc))]

        def body(L, events):
            ctx = L.ctx
            K = ctx.ghost['K']
            calls = [e for e in events if e.get('kind') == 'call' and e['callee'] == 'runtime.evaluate_expression']
            if len(calls) != 1 or calls[0]['outcome'].kind != 'return':
                return [('C19.expression-evaluated-once-per-row', False)]
            ev = calls[0]
            row = ctx.to_term(L.env['row'])
            h = L.heap
            return [('C19.every-row-gets-the-expression-value',
                     z3.And(ctx.to_term(ev['args'][2]) == row, h.dhas(V.dref(row), V.s(K.term(1))),
                            h.dget(V.dref(row), V.s(K.term(1))) == ctx.to_term(ev['outcome'].value)))]
        return {(self.qual, 0): LoopSpec(inv, heap='havoc', lemmas=lem, body_check=body, mk_heap=masked_fresh, iter_unmodified='assume')}


ADD_CALCULATED_FIELD = AddCalculatedField()
ADD_CALCULATED_FIELD.callee_contracts = dict(_CALLEES)


# ---------------------------------------------------------------------------------------------
# _sort_data_fn: the row comparator is the lexicographic combination of +-CMP over the sort keys
# ---------------------------------------------------------------------------------------------
SORTCMP = ufun('SORTCMP', HeapSort, V, V, V, Int, Int)


def sortcmp_def(h, sorts, r1, r2, k):
    H = h.term()
    s = h.lget(V.lref(sorts), k)
    field = h.lget(V.lref(s), 0)
    desc = z3.If(h.llen(V.lref(s)) > 1, sp_.py_truthy(h, h.lget(V.lref(s), 1)), False)
    v1 = z3.If(h.dhas(V.dref(r1), V.s(field)), h.dget(V.dref(r1), V.s(field)), VNone)
    v2 = z3.If(h.dhas(V.dref(r2), V.s(field)), h.dget(V.dref(r2), V.s(field)), VNone)
    c = z3.If(desc, sp_.CMP(H, v2, v1), sp_.CMP(H, v1, v2))
    return z3.If(k >= h.llen(V.lref(sorts)), 0, z3.If(c != 0, c, SORTCMP(H, sorts, r1, r2, k + 1)))


class SortDataFn(FnContract):
    qual = 'data._sort_data_fn'
    frame = 'pure'
    result = 'int'

    def pre(self, K):
        h = K.heap
        sorts = K.term(0)
        i = z3.Int('i!sorts')
        s = h.lget(V.lref(sorts), i)
        return [('sorts', z3.And(is_list(sorts), h.llen(V.lref(sorts)) >= 0,
                                 z3.ForAll([i], z3.Implies(z3.And(i >= 0, i < h.llen(V.lref(sorts))),
                                                           z3.And(is_list(s), h.llen(V.lref(s)) >= 1, is_str(h.lget(V.lref(s), 0))))))),
                ('rows', z3.And(is_dict(K.term(1)), is_dict(K.term(2))))]

    def post(self, K, out):
        if out.kind != 'return':
            return [('C19.comparator-never-fails', False)]
        from pyvc.models_ops import int_term
        return [('C11+C19.row-comparator-is-the-lexicographic-combination-of-the-key-comparisons',
                 int_term(K.ip, out.value) == SORTCMP(K.heap.term(), K.term(0), K.term(1), K.term(2), 0))]

    @property
    def loop_specs(self):
        def inv(L):
            K = L.ctx.ghost['K']
            h = K.heap
            return [('suffix', SORTCMP(h.term(), K.term(0), K.term(1), K.term(2), 0) == SORTCMP(h.term(), K.term(0), K.term(1), K.term(2), L.k)),
                    ('range', z3.And(L.k >= 0, L.k <= h.llen(V.lref(K.term(0)))))]

        def lem(L):
            K = L.ctx.ghost['K']
            h = K.heap
            s = h.lget(V.lref(K.term(0)), L.k)
            return [SORTCMP(h.term(), K.term(0), K.term(1), K.term(2), L.k) == sortcmp_def(h, K.term(0), K.term(1), K.term(2), L.k),
                    z3.Implies(z3.And(L.k >= 0, L.k < h.llen(V.lref(K.term(0)))),
                               z3.And(is_list(s), h.llen(V.lref(s)) >= 1, is_str(h.lget(V.lref(s), 0))))]
        return {(self.qual, 0): LoopSpec(inv, heap='unchanged', lemmas=lem)}


SORT_DATA_FN = SortDataFn()
SORT_DATA_FN.callee_contracts = {}


# ---------------------------------------------------------------------------------------------
# top_data: total for every valid count (int or float spelling), returns a fresh list
# ---------------------------------------------------------------------------------------------
class TopData(DataFn):
    qual = 'data.top_data'
    unroll = 2          # bounded: loops unrolled twice over symbolic tables (labelled bounded)

    def params(self, ip):
        ctx = ip.ctx
        return [S(ctx.fresh('data', V)), S(ctx.fresh('count', V)), S(ctx.fresh('category_fields', V))]

    def pre(self, K):
        h = K.heap
        data, cnt, cf = K.term(0), K.term(1), K.term(2)
        i = z3.Int('i!td')
        return [('rows', z3.And(is_list(data), h.llen(V.lref(data)) >= 0, V.lref(data) < h.alloc,
                                z3.ForAll([i], z3.Implies(z3.And(i >= 0, i < h.llen(V.lref(data))), is_dict(h.lget(V.lref(data), i)))))),
                ('count-is-an-integral-number-at-least-one', z3.And(sp_.is_number(cnt), sp_.is_integral(cnt), sp_.num(cnt) >= 1)),
                ('no-categories', is_none(cf))]

    def post(self, K, out):
        if out.kind == 'raise':
            return [('C12+C19.never-fails-for-a-valid-count-in-either-spelling', False)]
        r = K.ctx.to_term(out.value)
        return [('C19.returns-a-fresh-list', z3.And(is_list(r), V.lref(r) >= K.heap.alloc))]


TOP_DATA = TopData()
TOP_DATA.callee_contracts = {}


# fixed native witness programs for the data contracts: consulted when an obligation of the named clause is left undecided
import os as _os
with open(_os.path.join(_os.path.dirname(_os.path.dirname(_os.path.abspath(__file__))), 'native', 'witness', 'data_witness.py'),
          encoding='utf-8') as _fh:
    DATA_WITNESS = _fh.read()
FilterData.native_witness = {'kept-count': DATA_WITNESS, 'kept-rows-in-order': DATA_WITNESS, 'kept-slots-distinct': DATA_WITNESS,
                             'C19.filter-keeps-exactly-the-truthy-rows-in-order': DATA_WITNESS, 'kept-count-monotone': DATA_WITNESS}
AddCalculatedField.native_witness = {'C19.every-row-gets-the-expression-value': DATA_WITNESS}
