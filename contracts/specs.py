"""contracts.specs — specification functions written from the property statements (not from the code).

Everything here is logic-level: z3 terms over the value datatype V and the functional heap.
"""
import z3
from pyvc.core import (
    V, VNone, VBool, VInt, VFloat, VStr, VList, VDict, VDate, VFunc,
    is_none, is_bool, is_int, is_float, is_str, is_list, is_dict, is_date, is_func, is_regex, is_other,
    Str, Int, Real, Bool, Heap, HeapSort, numval, trunc)

# ---------------------------------------------------------------------------------------------
# BareScript value classification (the nine types of the language)
# ---------------------------------------------------------------------------------------------


def is_number(v):
    """A BareScript number: an int or a float, and NOT a boolean (C03, C11, C12, C15)."""
    return z3.Or(is_int(v), is_float(v))


def num(v):
    """mathematical value of a BareScript number"""
    return z3.If(is_int(v), z3.ToReal(V.i(v)), V.r(v))


def is_integral(v):
    return z3.Or(is_int(v), z3.And(is_float(v), z3.IsInt(V.r(v))))


def as_index(v):
    """the integer denoted by an integral number"""
    return z3.If(is_int(v), V.i(v), z3.ToInt(V.r(v)))


def veq(a, b):
    """Equality of results up to the int/float spelling of numbers (C12: one number type)."""
    return z3.If(z3.And(is_number(a), is_number(b)), num(a) == num(b), a == b)


def truthy(h, v):
    """value_boolean as documented: null, false, 0, '' and [] are false; everything else is true."""
    return z3.If(is_none(v), False,
           z3.If(is_str(v), z3.Length(V.s(v)) != 0,
           z3.If(is_bool(v), V.b(v),
           z3.If(is_number(v), num(v) != 0,
           z3.If(is_list(v), h.llen(V.lref(v)) != 0, True)))))


TYPE_PRED = {
    'number': is_number,
    'string': is_str,
    'array': is_list,
    'object': is_dict,
    'datetime': is_date,
    'regex': is_regex,
    'function': is_func,
}


# ---------------------------------------------------------------------------------------------
# heap comparison
# ---------------------------------------------------------------------------------------------

def list_same(h1, h2, r):
    i = z3.Int('i!ls')
    return z3.And(h1.llen(r) == h2.llen(r),
                  z3.ForAll([i], z3.Implies(z3.And(i >= 0, i < h1.llen(r)), h1.lget(r, i) == h2.lget(r, i))))


def dict_same(h1, h2, r, order=True):
    k = z3.String('k!ds')
    i = z3.Int('i!ds')
    parts = [z3.ForAll([k], z3.And(h1.dhas(r, k) == h2.dhas(r, k),
                                   z3.Implies(h1.dhas(r, k), h1.dget(r, k) == h2.dget(r, k))))]
    if order:
        parts.append(h1.dnk(r) == h2.dnk(r))
        parts.append(z3.ForAll([i], z3.Implies(z3.And(i >= 0, i < h1.dnk(r)), h1.dkey(r, i) == h2.dkey(r, i))))
    return z3.And(parts)


def frame_same(h1, h2, bound, except_lists=(), except_dicts=()):
    """Every container allocated before `bound`, other than the listed ones, is observably identical in h1 and h2."""
    r = z3.Int('r!fr')
    i = z3.Int('i!fr')
    k = z3.String('k!fr')
    lcond = z3.And(r >= 0, r < bound, *[r != x for x in except_lists])
    dcond = z3.And(r >= 0, r < bound, *[r != x for x in except_dicts])
    return z3.And(
        z3.ForAll([r], z3.Implies(lcond, h1.llen(r) == h2.llen(r))),
        z3.ForAll([r, i], z3.Implies(z3.And(lcond, i >= 0, i < h1.llen(r)), h1.lget(r, i) == h2.lget(r, i))),
        z3.ForAll([r, k], z3.Implies(dcond, z3.And(h1.dhas(r, k) == h2.dhas(r, k),
                                                    z3.Implies(h1.dhas(r, k), h1.dget(r, k) == h2.dget(r, k))))),
        z3.ForAll([r], z3.Implies(dcond, h1.dnk(r) == h2.dnk(r))),
        z3.ForAll([r, i], z3.Implies(z3.And(dcond, i >= 0, i < h1.dnk(r)), h1.dkey(r, i) == h2.dkey(r, i))))


def fresh_list_is(h, v, bound, n, els):
    """v is a list allocated at or after `bound` whose contents are els[0..n)"""
    i = z3.Int('i!fl')
    r = V.lref(v)
    return z3.And(is_list(v), r >= bound, h.llen(r) == n,
                  z3.ForAll([i], z3.Implies(z3.And(i >= 0, i < n), h.lget(r, i) == z3.Select(els, i))))
