"""contracts.specs — specification functions written from the property statements (not from the code).

Everything here is logic-level: z3 terms over the value datatype V and the functional heap.
"""
import z3
from pyvc.core import (
    V, VNone, VBool, VInt, VFloat, VStr, VList, VDict, VDate, VFunc,
    is_none, is_bool, is_int, is_float, is_str, is_list, is_dict, is_date, is_func, is_regex, is_other,
    Str, Int, Real, Bool, Heap, HeapSort, numval, trunc)

# ---------------------------------------------------------------------------------------------
# BareScript value classification (the nine types of the language)
# ---------------------------------------------------------------------------------------------


def is_number(v):
    """A BareScript number: an int or a float, and NOT a boolean (C03, C11, C12, C15)."""
    return z3.Or(is_int(v), is_float(v))


def num(v):
    """mathematical value of a BareScript number"""
    return z3.If(is_int(v), z3.ToReal(V.i(v)), V.r(v))


def is_integral(v):
    return z3.Or(is_int(v), z3.And(is_float(v), z3.IsInt(V.r(v))))


def as_index(v):
    """the integer denoted by an integral number"""
    return z3.If(is_int(v), V.i(v), z3.ToInt(V.r(v)))


def veq(a, b):
    """Equality of results up to the int/float spelling of numbers (C12: one number type)."""
    return z3.If(z3.And(is_number(a), is_number(b)), num(a) == num(b), a == b)


def truthy(h, v):
    """value_boolean as documented: null, false, 0, '' and [] are false; everything else is true."""
    return z3.If(is_none(v), False,
           z3.If(is_str(v), z3.Length(V.s(v)) != 0,
           z3.If(is_bool(v), V.b(v),
           z3.If(is_number(v), num(v) != 0,
           z3.If(is_list(v), h.llen(V.lref(v)) != 0, True)))))


def py_truthy(h, v):
    """Python truthiness (used for host options such as debug): additionally an empty dict is false"""
    return z3.If(is_none(v), False,
           z3.If(is_bool(v), V.b(v),
           z3.If(is_int(v), V.i(v) != 0,
           z3.If(is_float(v), V.r(v) != 0,
           z3.If(is_str(v), z3.Length(V.s(v)) != 0,
           z3.If(is_list(v), h.llen(V.lref(v)) != 0,
           z3.If(is_dict(v), h.dnk(V.dref(v)) != 0, True)))))))


TYPE_PRED = {
    'number': is_number,
    'string': is_str,
    'array': is_list,
    'object': is_dict,
    'datetime': is_date,
    'regex': is_regex,
    'function': is_func,
}


# ---------------------------------------------------------------------------------------------
# heap comparison
# ---------------------------------------------------------------------------------------------

def list_same(h1, h2, r):
    i = z3.Int('i!ls')
    return z3.And(h1.llen(r) == h2.llen(r),
                  z3.ForAll([i], z3.Implies(z3.And(i >= 0, i < h1.llen(r)), h1.lget(r, i) == h2.lget(r, i))))


def dict_same(h1, h2, r, order=True):
    k = z3.String('k!ds')
    i = z3.Int('i!ds')
    parts = [z3.ForAll([k], z3.And(h1.dhas(r, k) == h2.dhas(r, k),
                                   z3.Implies(h1.dhas(r, k), h1.dget(r, k) == h2.dget(r, k))))]
    if order:
        parts.append(h1.dnk(r) == h2.dnk(r))
        parts.append(z3.ForAll([i], z3.Implies(z3.And(i >= 0, i < h1.dnk(r)), h1.dkey(r, i) == h2.dkey(r, i))))
    return z3.And(parts)


def frame_same(h1, h2, bound, except_lists=(), except_dicts=()):
    """Every container allocated before `bound`, other than the listed ones, is observably identical in h1 and h2."""
    r = z3.Int('r!fr')
    i = z3.Int('i!fr')
    k = z3.String('k!fr')
    lcond = z3.And(r >= 0, r < bound, *[r != x for x in except_lists])
    dcond = z3.And(r >= 0, r < bound, *[r != x for x in except_dicts])
    return z3.And(
        z3.ForAll([r], z3.Implies(lcond, h1.llen(r) == h2.llen(r))),
        z3.ForAll([r, i], z3.Implies(z3.And(lcond, i >= 0, i < h1.llen(r)), h1.lget(r, i) == h2.lget(r, i))),
        z3.ForAll([r, k], z3.Implies(dcond, z3.And(h1.dhas(r, k) == h2.dhas(r, k),
                                                    z3.Implies(h1.dhas(r, k), h1.dget(r, k) == h2.dget(r, k))))),
        z3.ForAll([r], z3.Implies(dcond, h1.dnk(r) == h2.dnk(r))),
        z3.ForAll([r, i], z3.Implies(z3.And(dcond, i >= 0, i < h1.dnk(r)), h1.dkey(r, i) == h2.dkey(r, i))))


def fresh_list_is(h, v, bound, n, els):
    """v is a list allocated at or after `bound` whose contents are els[0..n)"""
    i = z3.Int('i!fl')
    r = V.lref(v)
    return z3.And(is_list(v), r >= bound, h.llen(r) == n,
                  z3.ForAll([i], z3.Implies(z3.And(i >= 0, i < n), h.lget(r, i) == z3.Select(els, i))))


# ---------------------------------------------------------------------------------------------
# the value order (C11) — written from the property statement
# ---------------------------------------------------------------------------------------------
from pyvc.models_calls import ufun, DATE_FIELD, SORTED_KEYS       # noqa: E402
from pyvc.models_date import U2L, MKUS                             # noqa: E402

CMP = ufun('CMP', HeapSort, V, V, Int)
LEX = ufun('LEX', HeapSort, V, V, Int, Int)        # arrays from index k on
DLEX = ufun('DLEX', HeapSort, V, V, Int, Int)      # objects: sorted key/value pairs from index k on


def sgn_int(a, b):
    return z3.If(a < b, -1, z3.If(a == b, 0, 1))


def sgn_str(a, b):
    return z3.If(a < b, -1, z3.If(a == b, 0, 1))


def type_name(v):
    """systemType's names; 'unknown' for host objects"""
    def s(x):
        return z3.StringVal(x)
    return z3.If(is_none(v), s('null'), z3.If(is_str(v), s('string'), z3.If(is_bool(v), s('boolean'),
           z3.If(is_number(v), s('number'), z3.If(is_date(v), s('datetime'), z3.If(is_dict(v), s('object'),
           z3.If(is_list(v), s('array'), z3.If(is_func(v), s('function'), z3.If(is_regex(v), s('regex'), s('unknown'))))))))))


def norm_us(v):
    """the local naive instant a date/datetime denotes"""
    us = V.us(v)
    return z3.If(V.kind(v) == 1, us, z3.If(V.kind(v) == 2, U2L(us),
                 MKUS(DATE_FIELD['year'](us), DATE_FIELD['month'](us), DATE_FIELD['day'](us), 0, 0, 0, 0)))


def heap_of(H):
    return Heap.of_term(H, z3.IntVal(0))


def cmp_def(H, a, b):
    """CMP(H, a, b) unfolded once"""
    return z3.If(is_none(a), z3.If(is_none(b), 0, -1),
           z3.If(is_none(b), 1,
           z3.If(z3.And(is_str(a), is_str(b)), sgn_str(V.s(a), V.s(b)),
           z3.If(z3.And(is_bool(a), is_bool(b)), sgn_int(z3.If(V.b(a), 1, 0), z3.If(V.b(b), 1, 0)),
           z3.If(z3.And(is_number(a), is_number(b)), sgn_int(num(a), num(b)),
           z3.If(z3.And(is_date(a), is_date(b)), sgn_int(norm_us(a), norm_us(b)),
           z3.If(z3.And(is_list(a), is_list(b)), LEX(H, a, b, 0),
           z3.If(z3.And(is_dict(a), is_dict(b)), DLEX(H, a, b, 0),
                 sgn_str(type_name(a), type_name(b))))))))))


def lex_def(H, a, b, k):
    h = heap_of(H)
    ra, rb = V.lref(a), V.lref(b)
    na, nb = h.llen(ra), h.llen(rb)
    c = CMP(H, h.lget(ra, k), h.lget(rb, k))
    return z3.If(z3.Or(k >= na, k >= nb), sgn_int(na, nb), z3.If(c != 0, c, LEX(H, a, b, k + 1)))


def dlex_def(H, a, b, k):
    h = heap_of(H)
    ra, rb = V.dref(a), V.dref(b)
    na, nb = h.dnk(ra), h.dnk(rb)
    ka, kb = z3.Select(SORTED_KEYS(H, ra), k), z3.Select(SORTED_KEYS(H, rb), k)
    ck = CMP(H, VStr(ka), VStr(kb))
    cv = CMP(H, h.dget(ra, ka), h.dget(rb, kb))
    return z3.If(z3.Or(k >= na, k >= nb), sgn_int(na, nb),
                 z3.If(ck != 0, ck, z3.If(cv != 0, cv, DLEX(H, a, b, k + 1))))


# ---------------------------------------------------------------------------------------------
# ground instances of CMP for native replays: the definition above unfolded on a concrete object graph
# ---------------------------------------------------------------------------------------------

def _g_type(x):
    if x is None:
        return 'null'
    if x is True or x is False:
        return 'boolean'
    if isinstance(x, (int, float)):
        return 'number'
    if isinstance(x, str):
        return 'string'
    if isinstance(x, dict):
        if '$ref' in x:
            return 'array' if x['$ref'][0] == 'L' else 'object'
        if '$float' in x:
            return 'number'
        if '$date' in x:
            return 'datetime'
        if '$func' in x:
            return 'function'
        if '$regex' in x:
            return 'regex'
    return 'unknown'


def _g_num(x):
    from fractions import Fraction
    if isinstance(x, dict):
        return Fraction(x['$float'])
    return Fraction(x)


def _sgn(a, b):
    return -1 if a < b else (0 if a == b else 1)


def ground_cmp(objects, a, b, depth=0):
    """cmp_def/lex_def/dlex_def computed on replay values (`objects`: the replay object graph); None where this reference
    does not decide (datetimes need the host's local offset; cyclic or very deep values)"""
    if depth > 20:
        return None
    ta, tb = _g_type(a), _g_type(b)
    if ta == 'null':
        return 0 if tb == 'null' else -1
    if tb == 'null':
        return 1
    if ta != tb:
        return _sgn(ta, tb)
    if ta == 'string':
        return _sgn(a, b)
    if ta == 'boolean':
        return _sgn(int(a), int(b))
    if ta == 'number':
        return _sgn(_g_num(a), _g_num(b))
    if ta == 'datetime':
        return None
    if ta == 'array':
        la, lb = objects.get(a['$ref']), objects.get(b['$ref'])
        if la is None or lb is None:
            return None
        for x, y in zip(la['items'], lb['items']):
            c = ground_cmp(objects, x, y, depth + 1)
            if c is None or c != 0:
                return c
        return _sgn(len(la['items']), len(lb['items']))
    if ta == 'object':
        da, db = objects.get(a['$ref']), objects.get(b['$ref'])
        if da is None or db is None:
            return None
        for (ka, va), (kb, vb) in zip(sorted(map(tuple, da['items'])), sorted(map(tuple, db['items']))):
            if ka != kb:
                return _sgn(ka, kb)
            c = ground_cmp(objects, va, vb, depth + 1)
            if c is None or c != 0:
                return c
        return _sgn(len(da['items']), len(db['items']))
    return 0      # two functions / regexes / host objects: equal type names


def ground_cmp_facts(heaps, objects, values, limit=14):
    """CMP(H, x, y) == c for the replay values of interest (at most limit^2 facts per heap)"""
    from pyvc.concretize import ground_value
    vals = []
    for v in values:
        if not any(v is w or (type(v) is type(w) and v == w) for w in vals):
            vals.append(v)
    vals = vals[:limit]
    facts = []
    for a in vals:
        for b in vals:
            c = ground_cmp(objects, a, b)
            if c is None:
                continue
            for H in heaps:
                facts.append(CMP(H, ground_value(a), ground_value(b)) == c)
    return facts


def replay_prepare_cmp(self, ctx, K, inputs, h0, h1):
    """replay hook of the contracts stated over CMP: the ground instances among the call's arguments, their elements and
    the elements of the argument list"""
    objects = inputs['objects']
    vals = []

    def add(x, deep):
        vals.append(x)
        if deep and isinstance(x, dict) and '$ref' in x and x['$ref'][0] == 'L' and x['$ref'] in objects:
            for y in objects[x['$ref']]['items']:
                add(y, deep - 1)
    for a in inputs['args']:
        add(a, 2)
    for f in ground_cmp_facts([h0.term(), h1.term()], objects, vals):
        ctx.assume(f)
