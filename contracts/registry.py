"""contracts.registry — every function contract by qualified name (used by ./check --replay)."""


def all_contracts():
    out = {}
    from . import lib_array, lib_string, lib_cmp, lib_math, lib_datetime, value_c, runtime_c, parser_c, parse_script_c, options_c
    for mod in (lib_array, lib_string, lib_cmp, lib_math, lib_datetime):
        for c in mod.LIB:
            out[c.qual] = c
    for c in (value_c.VALUE_COMPARE, value_c.VALUE_PARSE_DATETIME, runtime_c.EVALUATE_EXPRESSION, runtime_c.EXECUTE_SCRIPT_HELPER,
              runtime_c.SCRIPT_FUNCTION, runtime_c.EXECUTE_SCRIPT, parser_c.PARSE_UNARY, parser_c.PARSE_BINARY,
              parse_script_c.PARSE_SCRIPT_BODY, options_c.URL_FILE_RELATIVE_IMPL):
        out[c.qual] = c
    return out
