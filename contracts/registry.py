"""contracts.registry — every function contract by qualified name."""


def all_contracts():
    out = {}
    from . import lib_array, lib_string
    for mod in (lib_array, lib_string):
        for c in mod.LIB:
            out[c.qual] = c
    return out
