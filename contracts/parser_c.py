"""contracts.parser_c — contracts for parser.py (C02, C06, C01, C07, C10).

Expression parsing: _parse_unary_expression, _parse_binary_expression, parse_expression.
Regex matching is abstract (models_regex): whether a pattern matches is an uninterpreted function of the subject, groups
are arbitrary substrings constrained only by what the pattern tree implies (literal alternations, optionality).
"""
import ast
import z3
from pyvc.core import (V, VNone, VBool, VInt, VFloat, VStr, VList, VDict, is_none, is_bool, is_int, is_float, is_str,
                       is_list, is_dict, Str, Int, Real, Bool, Heap, HeapSort, wf_value, Val, C, S, B, I, R, T, Obj)
from pyvc.contract import FnContract, Outcome
from pyvc.interp import PyRaise, make_exc, OutOfReach
from pyvc.models_ops import norm
from pyvc.models_loops import LoopSpec
from pyvc.models_calls import ufun
from . import specs as sp_

OPS = ['**', '*', '/', '%', '+', '-', '<=', '<', '>=', '>', '==', '!=', '&&', '||']
# precedence levels of the property statement, highest binds tightest
RANK = {'**': 7, '*': 6, '/': 6, '%': 6, '+': 5, '-': 5, '<=': 4, '<': 4, '>=': 4, '>': 4, '==': 3, '!=': 3, '&&': 2, '||': 1}
UNARY_KEYS = ['group', 'unary', 'function', 'number', 'string', 'variable']


def rank(op):
    """z3 Int: precedence level of an operator string term"""
    t = z3.IntVal(0)
    for o, r in RANK.items():
        t = z3.If(op == z3.StringVal(o), z3.IntVal(r), t)
    return t


def preserves_old(ip, h0, tag):
    """an allocation-only callee: every pre-existing object is unchanged, new objects are arbitrary"""
    fresh = ip.ctx.fresh_heap(tag)
    ip.ctx.assume(fresh.alloc >= h0.alloc)
    r = z3.Int('r!old')

    def m(old, new):
        return z3.Lambda([r], z3.If(r < h0.alloc, z3.Select(old, r), z3.Select(new, r)))
    return Heap(m(h0.LEN, fresh.LEN), m(h0.ELS, fresh.ELS), m(h0.HAS, fresh.HAS), m(h0.VAL, fresh.VAL),
                m(h0.NK, fresh.NK), m(h0.KEY, fresh.KEY), fresh.alloc)


def parser_error_ctor(ip, exc, args, kwargs):
    names = ['error', 'line', 'column_number', 'line_number', 'prefix']
    vals = {'column_number': C(1), 'line_number': C(None), 'prefix': C(None)}
    for n, a in zip(names, args):
        vals[n] = a
    vals.update(kwargs)
    for n in ('error', 'line', 'column_number', 'line_number', 'prefix'):
        exc.f['fields'][n] = vals[n]


def slen(v):
    return z3.Length(V.s(v))


def node_key(h, e):
    return h.dkey(V.dref(e), 0)


def shallow_expr(h, e, bound=None):
    """e is an expression node: a dict with exactly one key"""
    r = V.dref(e)
    c = [is_dict(e), r >= 0, r < h.alloc, h.dnk(r) == 1, h.dhas(r, h.dkey(r, 0))]
    for k in UNARY_KEYS + ['binary']:
        # single key: membership of each node-kind name is equality with the key
        c.append(h.dhas(r, z3.StringVal(k)) == (h.dkey(r, 0) == z3.StringVal(k)))
    if bound is not None:
        c.append(r >= bound)
    return z3.And(c)


def binary_node(h, e):
    """e = {'binary': {'op': o, 'left': l, 'right': r}} with o an operator"""
    b = h.dget(V.dref(e), z3.StringVal('binary'))
    rb = V.dref(b)
    op = h.dget(rb, z3.StringVal('op'))
    return z3.And(is_dict(b), rb >= 0, rb < h.alloc, rb != V.dref(e),
                  h.dhas(rb, z3.StringVal('op')), h.dhas(rb, z3.StringVal('left')), h.dhas(rb, z3.StringVal('right')),
                  is_str(op), z3.Or([V.s(op) == z3.StringVal(o) for o in OPS]))


def has_key(h, e, k):
    return h.dhas(V.dref(e), z3.StringVal(k))


def number_literal_fact(ip, m, key, val):
    """assumed contract on float(): every text of the numeric-literal language [+-]?\\d+(\\.\\d*)?(e[+-]\\d+)? is
    accepted (the regex-language side of this is C13)"""
    name = m.f['regex'].f.get('name') or ''
    if name.endswith('_R_EXPR_NUMBER') and key == 1 and isinstance(val, T):
        from pyvc.models_calls import PARSE_FLOAT_OK
        ip.ctx.assume(PARSE_FLOAT_OK(val.t))


class ParserFn(FnContract):
    frame = 'havoc'
    hooks = {'class:BareScriptParserError': parser_error_ctor, 'match_group_fact': number_literal_fact}

    def havoc_heap(self, ip, h0):
        return preserves_old(ip, h0, 'parse')

    def may_raise(self, K):
        return [('BareScriptParserError', None)]

    def make_exception(self, ip, cls):
        ctx = ip.ctx
        exc = make_exc(cls, [])
        exc.f['fields'] = {'error': T(ctx.fresh('pe_error', Str)), 'line': T(ctx.fresh('pe_line', Str)),
                           'column_number': I(ctx.fresh('pe_col', Int)), 'line_number': C(None), 'prefix': C(None)}
        return exc

    def exc_post(self, K, out, text_term):
        """a parser error from the expression functions carries the unparsed remainder (not longer than the input)"""
        ip = K.ip
        exc = out.exc
        ok = ip.exc_isinstance(exc, 'BareScriptParserError')
        obs = [('C02+C06.only-parser-errors-escape', ok if isinstance(ok, bool) else ok)]
        if ok is True or not isinstance(ok, bool):
            f = exc.f['fields']
            line = f.get('line')
            if line is not None:
                lt = K.ctx.to_term(line)
                obs.append(('C06.error-line-is-a-remainder-of-the-text', z3.And(is_str(lt), slen(lt) <= z3.Length(text_term))))
        return obs


class ParseUnary(ParserFn):
    qual = 'parser._parse_unary_expression'

    def params(self, ip):
        t = ip.ctx.fresh('expr_text', Str)
        return [T(t)]

    def pre(self, K):
        return [('text-is-a-string', is_str(K.term(0)))]

    def post(self, K, out):
        text = V.s(K.term(0))
        if out.kind == 'raise':
            return self.exc_post(K, out, text)
        h0, h1 = K.heap, K.heap_after
        res = K.ctx.to_term(out.value)
        r = V.lref(res)
        e, rest = h1.lget(r, 0), h1.lget(r, 1)
        key = node_key(h1, e)
        return [('returns-node-and-remainder', z3.And(is_list(res), r >= h0.alloc, r < h1.alloc, h1.llen(r) == 2)),
                ('node-is-fresh', shallow_expr(h1, e, h0.alloc)),
                ('C02.unary-operand-is-never-a-bare-binary-node',
                 z3.Or([key == z3.StringVal(k) for k in UNARY_KEYS])),
                ('C02+C06.remainder-not-longer-than-text', z3.And(is_str(rest), slen(rest) <= z3.Length(text))),
                ('frame', sp_.frame_same(h0, h1, h0.alloc))]

    @property
    def loop_specs(self):
        def inv(L):
            K = L.ctx.ghost['K']
            h = L.heap
            args = L.term('args')
            at = L.term('arg_text')
            return [('args-fresh', z3.And(is_list(args), V.lref(args) >= K.heap.alloc, V.lref(args) < h.alloc,
                                          h.llen(V.lref(args)) >= 0)),
                    ('arg-text-shrinks', z3.And(is_str(at), slen(at) <= z3.Length(V.s(K.term(0))))),
                    ('frame', sp_.frame_same(K.heap, h, K.heap.alloc))]

        def mk(ctx):
            return preserves_old_ctx(ctx)
        return {(self.qual, 0): LoopSpec(inv, heap='havoc', header='True', keeps_owned=True, mk_heap=mk)}


def preserves_old_ctx(ctx):
    K = ctx.ghost['K']
    fresh = ctx.fresh_heap('loop')
    h0 = K.heap
    r = z3.Int('r!oldl')

    def m(old, new):
        return z3.Lambda([r], z3.If(r < h0.alloc, z3.Select(old, r), z3.Select(new, r)))
    return Heap(m(h0.LEN, fresh.LEN), m(h0.ELS, fresh.ELS), m(h0.HAS, fresh.HAS), m(h0.VAL, fresh.VAL),
                m(h0.NK, fresh.NK), m(h0.KEY, fresh.KEY), fresh.alloc)


SPINE = ufun('SPINE_WF', HeapSort, V, Bool)
REORDER_IN = ufun('TABLE_IN_parser.BINARY_REORDER', Str, Str, Bool)      # the right spine of a partially built binary tree is well formed


def spine_def(h, e):
    """one unfolding: e is an expression node; if it is a binary node it is complete and its right child is again
    spine-well-formed"""
    H = h.term()
    b = h.dget(V.dref(e), z3.StringVal('binary'))
    right = h.dget(V.dref(b), z3.StringVal('right'))
    return z3.And(shallow_expr(h, e),
                  z3.Implies(has_key(h, e, 'binary'), z3.And(binary_node(h, e), SPINE(H, right), wf_value(h, right),
                                                             V.dref(right) != V.dref(e), V.dref(right) != V.dref(b))))


class ParseBinary(ParserFn):
    qual = 'parser._parse_binary_expression'

    def params(self, ip):
        ctx = ip.ctx
        t = ctx.fresh('expr_text', Str)
        left = ctx.fresh('bin_left_expr', V)
        ctx.assume(wf_value(ctx.heap, left))
        return [T(t), S(left)]

    def pre(self, K):
        h = K.heap
        left = K.term(1)
        return [('text-is-a-string', is_str(K.term(0))),
                ('left-is-none-or-a-node', z3.Or(is_none(left), shallow_expr(h, left)))]

    def axioms(self, K):
        # trusted structural invariant (not proved here, see DESIGN.md C02): the tree built so far is tree-shaped and
        # every binary node on its right spine is complete
        h = K.heap
        left = K.term(1)
        a, b = z3.Strings('op!a op!b')
        isop = lambda x: z3.Or([x == z3.StringVal(o) for o in OPS])
        return [('SPINE-assumed', z3.Implies(z3.Not(is_none(left)), SPINE(h.term(), left))),
                ('SPINE-def', z3.Implies(z3.Not(is_none(left)), spine_def(h, left))),
                # the BINARY_REORDER table as a relation: discharged exhaustively by the table lemma (props/C02)
                ('REORDER-table', z3.ForAll([a, b], z3.Implies(z3.And(isop(a), isop(b)),
                                                               REORDER_IN(a, b) == (rank(b) < rank(a)))))]

    def post(self, K, out):
        text = V.s(K.term(0))
        step = self.insertion_step(K) if K.ctx.ghost.get('K') is K else []
        if out.kind == 'raise':
            return self.exc_post(K, out, text) + step
        h0, h1 = K.heap, K.heap_after
        res = K.ctx.to_term(out.value)
        r = V.lref(res)
        e, rest = h1.lget(r, 0), h1.lget(r, 1)
        return [('returns-node-and-remainder', z3.And(is_list(res), r >= h0.alloc, r < h1.alloc, h1.llen(r) == 2)),
                ('node', shallow_expr(h1, e)),
                ('C02+C06.remainder-not-longer-than-text', z3.And(is_str(rest), slen(rest) <= z3.Length(text)))] + step

    def insertion_step(self, K):
        """C02: where the new operator node is put. Either it becomes the root over the tree so far (which then binds
        at least as tight), or it is inserted at the end of a walk down the right spine: under a parent that binds
        looser, taking over the parent's old right operand (which binds at least as tight) as its left operand.
        Nothing else is written."""
        ctx = K.ctx
        events = ctx.ghost.get('events', [])
        rec = [e for e in events if e.get('kind') == 'call' and e['callee'] == self.qual]
        if not rec:
            return []
        call = rec[-1]
        hb = call['heap_before']
        root = ctx.to_term(call['args'][1])
        unary = [e for e in events if e.get('kind') == 'call' and e['callee'] == PARSE_UNARY.qual
                 and e.get('outcome') is not None and e['outcome'].kind == 'return']
        ops = [e for e in events if e.get('kind') == 'regex' and e['matched'] and e['name'].endswith('_R_EXPR_BINARY_OP')]
        if not unary or not ops:
            return []
        op = ctx.to_term(ops[-1]['match'].f['groups'][1])
        ru = ctx.to_term(unary[-1]['outcome'].value)
        right_expr = unary[-1]['heap_after'].lget(V.lref(ru), 0)

        def bget(h, n, k):
            return h.dget(V.dref(h.dget(V.dref(n), z3.StringVal('binary'))), z3.StringVal(k))

        def binds_at_least_as_tight(h, n):
            return z3.Implies(has_key(h, n, 'binary'), rank(V.s(bget(h, n, 'op'))) >= rank(V.s(op)))
        done = [e for e in events if e.get('kind') == 'loop-done' and e['loop'].endswith('_parse_binary_expression.loop0')]
        obs = []
        if done:
            env = done[-1]['env']
            hx = done[-1]['heap_after']
            P = ctx.to_term(env['reorder_expr'])
            left0 = ctx.to_term(env['left_expr'])
            N = bget(hb, P, 'right')
            old_right = bget(hx, P, 'right')
            pb = V.dref(hx.dget(V.dref(P), z3.StringVal('binary')))
            k = z3.String('k!ins')
            obs.append(('C02.insertion-under-a-looser-parent-keeps-the-root', z3.And(
                root == left0, rank(V.s(bget(hx, P, 'op'))) < rank(V.s(op)),
                has_key(hb, N, 'binary'), bget(hb, N, 'op') == op, bget(hb, N, 'left') == old_right,
                bget(hb, N, 'right') == right_expr, binds_at_least_as_tight(hx, old_right),
                V.dref(N) >= hx.alloc)))
            obs.append(('C02.insertion-writes-only-the-parents-right-operand', z3.And(
                sp_.frame_same(hx, hb, hx.alloc, except_dicts=[pb]),
                z3.ForAll([k], z3.Implies(k != z3.StringVal('right'),
                                          z3.And(hb.dhas(pb, k) == hx.dhas(pb, k), hb.dget(pb, k) == hx.dget(pb, k)))))))
        else:
            # the new node becomes the root
            left_evs = [e for e in unary[:-1]]
            h_new = hb
            obs.append(('C02.new-root-over-an-operand-that-binds-at-least-as-tight', z3.And(
                has_key(hb, root, 'binary'), bget(hb, root, 'op') == op, bget(hb, root, 'right') == right_expr,
                binds_at_least_as_tight(hb, bget(hb, root, 'left')), V.dref(root) >= K.heap.alloc,
                sp_.frame_same(K.heap, hb, K.heap.alloc))))
        return obs

    @property
    def loop_specs(self):
        def inv(L):
            K = L.ctx.ghost['K']
            h = L.heap
            re_ = L.term('reorder_expr')
            op = L.term('bin_op')
            b = h.dget(V.dref(re_), z3.StringVal('binary'))
            return [('on-a-complete-binary-node', z3.And(shallow_expr(h, re_), has_key(h, re_, 'binary'), binary_node(h, re_))),
                    ('C02.parent-binds-looser', rank(V.s(h.dget(V.dref(b), z3.StringVal('op')))) < rank(V.s(op)))]

        def lem(L):
            h = L.heap
            re_ = L.term('reorder_expr')
            b = h.dget(V.dref(re_), z3.StringVal('binary'))
            right = h.dget(V.dref(b), z3.StringVal('right'))
            # trusted structural invariant: the nodes on the right spine of the tree built so far are complete
            return [spine_def(h, re_), z3.Implies(has_key(h, re_, 'binary'), spine_def(h, right))]
        return {(self.qual, 0): LoopSpec(inv, heap='unchanged', lemmas=lem)}


PARSE_UNARY = ParseUnary()
PARSE_BINARY = ParseBinary()


class ParseExpression(ParserFn):
    qual = 'parser.parse_expression'

    def params(self, ip):
        return [T(ip.ctx.fresh('expr_text', Str))]

    def pre(self, K):
        return [('text-is-a-string', is_str(K.term(0)))]

    def post(self, K, out):
        text = V.s(K.term(0))
        h0, h1 = K.heap, K.heap_after
        if out.kind == 'raise':
            obs = self.exc_post(K, out, text)
            f = out.exc.f['fields']
            if 'column_number' in f and 'line' in f:
                col = K.ctx.to_term(f['column_number'])
                obs.append(('C06.column-inside-the-expression-text',
                            z3.And(is_int(col), V.i(col) >= 1, V.i(col) <= z3.Length(text) + 1,
                                   K.ctx.to_term(f['line']) == VStr(text))))
            return obs
        res = K.ctx.to_term(out.value)
        return [('node', shallow_expr(h1, res)), ('frame', sp_.frame_same(h0, h1, h0.alloc))]


PARSE_EXPRESSION = ParseExpression()
for _c in (PARSE_UNARY, PARSE_BINARY, PARSE_EXPRESSION):
    _c.callee_contracts = {PARSE_UNARY.qual: PARSE_UNARY, PARSE_BINARY.qual: PARSE_BINARY}
