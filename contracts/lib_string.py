"""contracts.lib_string — string*, regexEscape, urlEncode* semantic clauses. String built-ins are uninterpreted
functions shared by code model and specification: what is proved is the argument plumbing (validation, int()
conversion, bounds, failure values); str.find etc. themselves are assumed (CPython)."""
import z3
from pyvc.core import (V, VNone, VBool, VInt, VStr, is_none, Str, Int)
from pyvc.models_calls import (STR_LOWER, STR_UPPER, STR_STRIP, STR_REPLACE, STR_FIND, STR_RFIND, STR_ORD,
                               STR_SPLIT_N, STR_SPLIT_PARTS, ufun)
from pyvc.models_ops import STR_REPEAT
from .lib import LibFn
from .specs import as_index
from .value_c import VALUE_STRING

j = z3.Int('j!sspec')
RE_ESCAPE = ufun('RE_ESCAPE', Str, Str)
URL_QUOTE = ufun('URL_QUOTE', Str, Str, Str)


def s_(v):
    return V.s(v)


def char_code_at(sp):
    s, i = s_(sp.a[0]), as_index(sp.a[1])
    return {'ok': i < z3.Length(s), 'ret': ('val', VInt(STR_ORD(z3.SubString(s, i, 1))))}


def ends_with(sp):
    return {'ret': ('val', VBool(z3.SuffixOf(s_(sp.a[1]), s_(sp.a[0]))))}


def starts_with(sp):
    return {'ret': ('val', VBool(z3.PrefixOf(s_(sp.a[1]), s_(sp.a[0]))))}


def index_of(sp):
    s, i = s_(sp.a[0]), as_index(sp.a[2])
    return {'ok': i < z3.Length(s), 'ret': ('val', VInt(STR_FIND(s, s_(sp.a[1]), i)))}


def last_index_of(sp):
    s, search = s_(sp.a[0]), s_(sp.a[1])
    i = z3.If(is_none(sp.a[2]), z3.Length(s) - 1, as_index(sp.a[2]))
    return {'ok': i < z3.Length(s), 'ret': ('val', VInt(STR_RFIND(s, search, z3.IntVal(0), i + z3.Length(search))))}


def length(sp):
    return {'ret': ('val', VInt(z3.Length(s_(sp.a[0]))))}


def lower(sp):
    return {'ret': ('val', VStr(STR_LOWER(s_(sp.a[0]))))}


def upper(sp):
    return {'ret': ('val', VStr(STR_UPPER(s_(sp.a[0]))))}


def trim(sp):
    return {'ret': ('val', VStr(STR_STRIP(s_(sp.a[0]))))}


def new(sp):
    # CPython refuses to print integers of more than 4300 digits (ValueError -> null): outside the argument range
    from pyvc.core import is_int
    lim = z3.IntVal(10 ** 4300)
    v = sp.a[0]
    return {'ok': z3.Not(z3.And(is_int(v), z3.Or(V.i(v) >= lim, V.i(v) <= -lim))),
            'ret': ('val', VStr(VALUE_STRING(sp.h.term(), v)))}


def repeat(sp):
    return {'ret': ('val', VStr(STR_REPEAT(s_(sp.a[0]), as_index(sp.a[1]))))}


def replace(sp):
    return {'ret': ('val', VStr(STR_REPLACE(s_(sp.a[0]), s_(sp.a[1]), s_(sp.a[2]))))}


def slice_(sp):
    s = s_(sp.a[0])
    n = z3.Length(s)
    start = as_index(sp.a[1])
    end = z3.If(is_none(sp.a[2]), n, as_index(sp.a[2]))
    return {'ok': z3.And(start <= n, end <= n),
            'ret': ('val', VStr(z3.SubString(s, start, z3.If(end > start, end - start, 0))))}


def split(sp):
    s, sep = s_(sp.a[0]), s_(sp.a[1])
    return {'ok': z3.Length(sep) > 0,
            'ret': ('fresh_list', STR_SPLIT_N(s, sep), z3.Lambda([j], VStr(z3.Select(STR_SPLIT_PARTS(s, sep), j))))}


def regex_escape(sp):
    return {'ret': ('val', VStr(RE_ESCAPE(s_(sp.a[0]))))}


def url_encode(sp):
    return {'ret': ('val', VStr(URL_QUOTE(s_(sp.a[0]), z3.StringVal("':/&+"))))}


def url_encode_component(sp):
    return {'ret': ('val', VStr(URL_QUOTE(s_(sp.a[0]), z3.StringVal("'"))))}


def json_stringify(sp):
    # jsonStringify(value, indent): the serialisation of the value tree; the indent is used as the integer it denotes
    from pyvc.models_calls import JSON_TEXT
    from pyvc.core import VInt, VNone, is_none
    ind = sp.a[1]
    return {'ret': ('val', VStr(JSON_TEXT(sp.h.term(), sp.a[0], z3.If(is_none(ind), VNone, VInt(as_index(ind))))))}


class JsonParse(LibFn):
    """jsonParse(string): the value json.loads gives (a dependency: arbitrary JSON value or ValueError); the decoded
    containers are new on every call and nothing that existed before is modified"""

    def __init__(self):
        super().__init__('jsonParse', 'library._json_parse', '_JSON_PARSE_ARGS', None, lambda sp: {'ret': ('any',)})

    def post(self, K, out):
        obs = super().post(K, out)
        if out.kind == 'return':
            from pyvc.core import is_list, is_dict
            res = K.ctx.to_term(out.value)
            b = K.heap.alloc
            obs.append(('C14.decoded-containers-are-new', z3.And(z3.Implies(is_list(res), V.lref(res) >= b),
                                                                 z3.Implies(is_dict(res), V.dref(res) >= b))))
        elif K.ip.exc_isinstance(out.exc, 'ValueArgsError') is not True:
            # invalid text: the decoder's ValueError leaves the call (the expression evaluator turns it into null); it can
            # only happen for valid arguments
            sp, valid = self.view(K)
            obs = [(l, f) for l, f in obs if l not in ('fails-only-when-invalid', 'failure-value')]
            obs.append(('fails-for-valid-arguments-only-with-the-decoders-error',
                        z3.And(valid, z3.BoolVal(out.exc.f.get('cls') == 'JSONDecodeError'))))
        return obs


import os as _os
with open(_os.path.join(_os.path.dirname(_os.path.dirname(_os.path.abspath(__file__))), 'native', 'witness', 'json_parse_witness.py'),
          encoding='utf-8') as _fh:
    JsonParse.native_witness = {'C14.decoded-containers-are-new': _fh.read()}

LIB = [
    JsonParse(),
    LibFn('jsonStringify', 'library._json_stringify', '_JSON_STRINGIFY_ARGS', None, json_stringify),
    LibFn('stringCharCodeAt', 'library._string_char_code_at', '_STRING_CHAR_CODE_AT_ARGS', None, char_code_at),
    LibFn('stringEndsWith', 'library._string_ends_with', '_STRING_ENDS_WITH_ARGS', None, ends_with),
    LibFn('stringIndexOf', 'library._string_index_of', '_STRING_INDEX_OF_ARGS', -1, index_of),
    LibFn('stringLastIndexOf', 'library._string_last_index_of', '_STRING_LAST_INDEX_OF_ARGS', -1, last_index_of),
    LibFn('stringLength', 'library._string_length', '_STRING_LENGTH_ARGS', 0, length),
    LibFn('stringLower', 'library._string_lower', '_STRING_LOWER_ARGS', None, lower),
    LibFn('stringNew', 'library._string_new', '_STRING_NEW_ARGS', None, new),
    LibFn('stringRepeat', 'library._string_repeat', '_STRING_REPEAT_ARGS', None, repeat),
    LibFn('stringReplace', 'library._string_replace', '_STRING_REPLACE_ARGS', None, replace),
    LibFn('stringSlice', 'library._string_slice', '_STRING_SLICE_ARGS', None, slice_),
    LibFn('stringSplit', 'library._string_split', '_STRING_SPLIT_ARGS', None, split),
    LibFn('stringStartsWith', 'library._string_starts_with', '_STRING_STARTS_WITH_ARGS', None, starts_with),
    LibFn('stringTrim', 'library._string_trim', '_STRING_TRIM_ARGS', None, trim),
    LibFn('stringUpper', 'library._string_upper', '_STRING_UPPER_ARGS', None, upper),
    LibFn('regexEscape', 'library._regex_escape', '_REGEX_ESCAPE_ARGS', None, regex_escape),
    LibFn('urlEncode', 'library._url_encode', '_URL_ENCODE_ARGS', None, url_encode),
    LibFn('urlEncodeComponent', 'library._url_encode_component', '_URL_ENCODE_COMPONENT_ARGS', None, url_encode_component),
]
