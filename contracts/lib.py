"""contracts.lib — contracts for the library functions (C15, C12, parts of C05/C11/C13/C16).

Each contract is generated from the function's own argument model (re-read from the source on every run) plus a
semantic clause `sem(sp)` written against the reference list/dict/str model:

  valid case   : arguments present/typed/in range as the model says (a number is an int or float, not a bool;
                 missing untyped/nullable/defaulted arguments are filled as the model says)
                 => the call returns, the result and the post-heap are what `sem` says, and nothing else changes;
  invalid case : the call fails with the documented failure value and every pre-existing container is unchanged.
"""
import z3
from pyvc.core import (V, VNone, VBool, VInt, VFloat, VStr, VList, VDict, is_none, is_list, is_dict, is_str, is_bool,
                       Int, Str, Bool, ArrIntV, Heap, wf_value, C, S, B, I, R, T, Obj, conc_to_term)
from pyvc.contract import FnContract, Outcome
from pyvc.interp import Interp
from pyvc.models_ops import norm
from . import specs as sp_


class Sp:
    """What a semantic clause sees: normalised argument terms and the pre-heap."""

    def __init__(self, K, h, a, rest, n, argsref, options):
        self.K, self.h, self.a, self._rest, self.n, self.argsref, self.options = K, h, a, rest, n, argsref, options

    def rest(self):
        """(count, element array) of the trailing lastArgArray argument"""
        return self._rest


def arg_terms(K, maxn):
    """(argsref, n, [arg_i terms])"""
    ctx = K.ctx
    t = K.term(0)
    ref = z3.simplify(V.lref(t))
    h = K.heap
    return ref, h.llen(ref), [h.lget(ref, z3.IntVal(i)) for i in range(maxn)]


def model_validity(model, h, n, raw):
    """From the argument model: (valid Bool, [normalised arg terms], rest or None). Written from the documented
    calling convention (C15 statement), not from value_args_validate."""
    conds = []
    vals = []
    rest = None
    for ix, m in enumerate(model):
        ty = m.get('type')
        present = n > ix
        v = raw[ix]
        if m.get('lastArgArray'):
            j = z3.Int('j!rest')
            cnt = z3.If(n > ix, n - ix, z3.IntVal(0))
            rest = (cnt, ix)
            vals.append(None)
            continue
        # value when missing
        if 'default' in m and m['default'] is not None:
            missing_val, missing_ok = conc_to_term(m['default']), True
        elif ty == 'boolean':
            missing_val, missing_ok = VBool(z3.BoolVal(False)), True
        elif ty is None or m.get('nullable'):
            missing_val, missing_ok = VNone, True
        else:
            missing_val, missing_ok = VNone, False
        if ty is None:
            ok_present = z3.BoolVal(True)
            val_present = v
        elif ty == 'boolean':
            ok_present = z3.BoolVal(True)
            val_present = VBool(sp_.truthy(h, v))
        else:
            typed = sp_.TYPE_PRED[ty](v)
            if ty == 'number':
                cs = [typed]
                if m.get('integer'):
                    cs.append(sp_.is_integral(v))
                for key, rel in (('lt', lambda a, b: a < b), ('lte', lambda a, b: a <= b),
                                 ('gt', lambda a, b: a > b), ('gte', lambda a, b: a >= b)):
                    if m.get(key) is not None:
                        cs.append(rel(sp_.num(v), z3.RealVal(m[key])))
                typed = z3.And(cs)
            if m.get('nullable'):
                ok_present = z3.Or(is_none(v), typed)
            else:
                ok_present = typed
            val_present = v
        conds.append(z3.If(present, ok_present, z3.BoolVal(missing_ok)))
        vals.append(z3.If(present, val_present, missing_val))
    has_rest = any(m.get('lastArgArray') for m in model)
    if not has_rest:
        conds.append(n <= len(model))
    return z3.And(conds), vals, rest


class LibFn(FnContract):
    """Contract of one SCRIPT_FUNCTIONS entry."""
    frame = 'havoc'

    def __init__(self, script_name, qual, model_name, fail, sem, maxargs=None, inline=(), notes='', facts=None):
        self.facts = facts               # facts(K) -> arithmetic facts about uninterpreted functions (trusted, listed)
        self.script_name = script_name
        self.qual = qual
        self.model_name = model_name     # e.g. '_ARRAY_GET_ARGS' (None: no argument model)
        self.fail = fail                 # documented failure value (python: None, -1, 0, False) or 'arg2'
        self.sem = sem
        self.maxargs = maxargs
        self.inline = tuple(inline)
        self.notes = notes
        self._model = None

    def axioms(self, K):
        return self.facts(K) if self.facts is not None else []

    def model(self, ip):
        if self.model_name is None:
            return None
        c = ip.module_name('library', self.model_name)
        return c.py

    def params(self, ip):
        ctx = ip.ctx
        args = ctx.fresh('args', Int)
        ctx.assume(z3.And(args >= 0, args < ctx.heap.alloc, ctx.heap.llen(args) >= 0))
        ctx.ghost['pre_heap'] = (ctx.heap, [args])
        opts = ctx.fresh('options', V)
        ctx.assume(wf_value(ctx.heap, opts))
        ctx.assume(z3.Or(is_none(opts), is_dict(opts)))
        return [S(VList(args)), S(opts)]

    def view(self, K):
        ip = K.ip
        model = self.model(ip)
        maxn = self.maxargs if self.maxargs is not None else (len(model) if model else 0)
        argsref, n, raw = arg_terms(K, maxn + 1)
        h = K.heap
        if model is not None:
            valid, vals, rest = model_validity(model, h, n, raw)
        else:
            valid, vals, rest = z3.BoolVal(True), raw, (n, 0)
        if rest is not None:
            cnt, start = rest
            j = z3.Int('j!rest')
            rest = (cnt, z3.Lambda([j], z3.Select(h.lels(argsref), j + start)))
        return Sp(K, h, vals, rest, n, argsref, K.term(1)), valid

    def pre(self, K):
        # the argument list is a fresh temporary: no argument is the list itself
        model = self.model(K.ip)
        maxn = self.maxargs if self.maxargs is not None else (len(model) if model else 0)
        argsref, n, raw = arg_terms(K, maxn + 1)
        i = z3.Int('i!own')
        h = K.heap
        from pyvc.core import float_in_range
        return [('args-not-self-referential',
                 z3.ForAll([i], z3.Implies(z3.And(i >= 0, i < n), h.lget(argsref, i) != VList(argsref))))] + \
               [(f'float-arg{ix}-is-finite', float_in_range(a)) for ix, a in enumerate(raw)]

    def post(self, K, out):
        sp, valid = self.view(K)
        r = self.sem(sp)
        ok = z3.And(valid, r.get('ok', z3.BoolVal(True)))
        h0, h1 = K.heap, K.heap_after
        bound = h0.alloc
        obs = []
        if out.kind == 'return':
            obs.append(('returns-only-when-valid', ok))
            res = K.ctx.to_term(out.value)
            ret = r['ret']
            if ret[0] == 'val':
                obs.append(('result', sp_.veq(res, ret[1])))
            elif ret[0] == 'fresh_list':
                obs.append(('result-fresh-list', sp_.fresh_list_is(h1, res, bound, ret[1], ret[2])))
            elif ret[0] == 'fresh_dict':
                obs.append(('result-fresh-dict', self._fresh_dict(h1, res, bound, ret)))
            effects = r.get('effects', [])
        else:
            exc = out.exc
            obs.append(('fails-only-when-invalid', z3.Not(ok)))
            obs.append(('failure-value', self._failure_value(K, sp, exc)))
            effects = []
        ex_l, ex_d = [sp.argsref], []
        for ix, e in enumerate(effects):
            if e[0] == 'list':
                _, ref, n, els = e
                i = z3.Int('i!ef')
                obs.append((f'effect{ix}', z3.And(h1.llen(ref) == n, z3.ForAll([i], z3.Implies(
                    z3.And(i >= 0, i < n), h1.lget(ref, i) == z3.Select(els, i))))))
                ex_l.append(ref)
            else:
                _, ref, hexp, order = e
                obs.append((f'effect{ix}', sp_.dict_same(h1, hexp, ref, order=order)))
                ex_d.append(ref)
        obs.append(('frame', sp_.frame_same(h0, h1, bound, ex_l, ex_d)))
        if 'guard' in r:
            # the clause is claimed for operands inside the stated magnitude guard only (IEEE range edges are
            # outside the logic)
            obs = [(label, z3.Implies(r['guard'], f)) for label, f in obs]
        return obs

    def _fresh_dict(self, h1, res, bound, ret):
        _, hexp, ref_exp, order = ret
        r = V.dref(res)
        k = z3.String('k!fd')
        i = z3.Int('i!fd')
        parts = [is_dict(res), r >= bound,
                 z3.ForAll([k], z3.And(h1.dhas(r, k) == hexp.dhas(ref_exp, k),
                                       z3.Implies(h1.dhas(r, k), h1.dget(r, k) == hexp.dget(ref_exp, k))))]
        if order:
            parts.append(h1.dnk(r) == hexp.dnk(ref_exp))
            parts.append(z3.ForAll([i], z3.Implies(z3.And(i >= 0, i < h1.dnk(r)), h1.dkey(r, i) == hexp.dkey(ref_exp, i))))
        return z3.And(parts)

    def _failure_value(self, K, sp, exc):
        ip = K.ip
        if self.fail == 'arg2':
            fail = z3.If(sp.n >= 3, sp.h.lget(sp.argsref, z3.IntVal(2)), VNone)
        else:
            fail = conc_to_term(self.fail)
        isva = ip.exc_isinstance(exc, 'ValueArgsError')
        isexc = ip.exc_isinstance(exc, 'Exception')
        if isva is True:
            rv = exc.f['fields'].get('return_value', C(None))
            return sp_.veq(K.ctx.to_term(rv), fail)
        if isva is False:
            # any other Exception is turned into null by the call wrapper
            if isexc is True:
                return fail == VNone
            return z3.BoolVal(False)
        raise NotImplementedError('exception of unknown class in a library function')


# ---------------------------------------------------------------------------------------------
# C12: the specification itself does not depend on the int/float spelling of integral numbers
# ---------------------------------------------------------------------------------------------

def numeq(a, b):
    """a and b are the same value up to the spelling of an integral number below 1e15 (the property's range)"""
    lim = z3.RealVal(10 ** 15)
    return z3.Or(a == b, z3.And(sp_.is_number(a), sp_.is_number(b), sp_.num(a) == sp_.num(b),
                                z3.IsInt(sp_.num(a)), sp_.num(a) < lim, sp_.num(a) > -lim))


def spelling_lemmas(h, pairs):
    """facts used by the spelling-invariance check: CMP does not see the spelling (proved: CMP.int-float-spelling);
    value_string and value_json print an integral float like the int (C13/C14 clean-up obligations; assumed contract on
    float.__repr__ below 1e16)"""
    from .value_c import VALUE_STRING
    from pyvc.models_calls import JSON_TEXT
    H = h.term()
    out = []
    ind = z3.Const('ind!sl', V)
    for a, b in pairs:
        out.append(z3.Implies(numeq(a, b), VALUE_STRING(H, a) == VALUE_STRING(H, b)))
        # value_json prints an integral float like the int: the clean-up obligations of C14 (every terminator served,
        # end of text included) over the assumed float.__repr__ grammar
        out.append(z3.ForAll([ind], z3.Implies(numeq(a, b), JSON_TEXT(H, a, ind) == JSON_TEXT(H, b, ind))))
        for c, d in pairs:
            out.append(z3.Implies(z3.And(numeq(a, b), numeq(c, d)), sp_.CMP(H, a, c) == sp_.CMP(H, b, d)))
    return out


def spelling_invariance_obligations(contract, repo_ip):
    """[(name, hypotheses, goal)]: two runs of the specification on argument lists that differ only in the spelling
    (int vs float) of top-level numbers agree on validity, range condition, result (up to spelling) and effects."""
    model = contract.model(repo_ip)
    maxn = contract.maxargs if contract.maxargs is not None else (len(model) if model else 0)
    h = Heap.fresh('_c12')
    n = z3.Int('n_c12')
    argsref = z3.Int('args_c12')
    raw1 = [z3.Const(f'a{i}_c12', V) for i in range(maxn + 1)]
    raw2 = [z3.Const(f'b{i}_c12', V) for i in range(maxn + 1)]
    hyp = [n >= 0] + [numeq(x, y) for x, y in zip(raw1, raw2)] + spelling_lemmas(h, list(zip(raw1, raw2)) + [(VNone, VNone)])
    if model is None:
        return []
    if contract.facts is not None:
        hyp += [f for _, f in contract.facts(None)]
    v1, vals1, rest1 = model_validity(model, h, n, raw1)
    v2, vals2, rest2 = model_validity(model, h, n, raw2)
    if getattr(contract, 'fact_instances', None) is not None:
        hyp += contract.fact_instances(vals1) + contract.fact_instances(vals2)
    if rest1 is not None:
        return [(f'{contract.script_name}.spec-spelling.validity', hyp, v1 == v2)]

    class _K:
        pass
    s1 = Sp(_K(), h, vals1, None, n, argsref, VNone)
    s2 = Sp(_K(), h, vals2, None, n, argsref, VNone)
    try:
        r1, r2 = contract.sem(s1), contract.sem(s2)
    except Exception as e:   # a semantic clause that needs more context than this harness gives
        return [(f'{contract.script_name}.spec-spelling.validity', hyp, v1 == v2)]
    out = [(f'{contract.script_name}.spec-spelling.validity', hyp, v1 == v2)]
    ok1, ok2 = r1.get('ok', z3.BoolVal(True)), r2.get('ok', z3.BoolVal(True))
    out.append((f'{contract.script_name}.spec-spelling.range-condition', hyp + [v1], ok1 == ok2))
    if r1['ret'][0] == 'val' and r2['ret'][0] == 'val':
        out.append((f'{contract.script_name}.spec-spelling.result', hyp + [v1, ok1], numeq(r1['ret'][1], r2['ret'][1])))
    elif r1['ret'][0] == 'fresh_list':
        i = z3.Int('i_c12')
        out.append((f'{contract.script_name}.spec-spelling.result', hyp + [v1, ok1],
                    z3.And(r1['ret'][1] == r2['ret'][1],
                           z3.ForAll([i], z3.Implies(z3.And(i >= 0, i < r1['ret'][1]),
                                                     numeq(z3.Select(r1['ret'][2], i), z3.Select(r2['ret'][2], i)))))))
    for ix, (e1, e2) in enumerate(zip(r1.get('effects', []), r2.get('effects', []))):
        if e1[0] == 'list':
            i = z3.Int('i_c12e')
            out.append((f'{contract.script_name}.spec-spelling.effect{ix}', hyp + [v1, ok1],
                        z3.And(e1[1] == e2[1], e1[2] == e2[2],
                               z3.ForAll([i], z3.Implies(z3.And(i >= 0, i < e1[2]),
                                                         numeq(z3.Select(e1[3], i), z3.Select(e2[3], i)))))))
    return out
