"""contracts.cmp_lemmas — the lemma layer over the value order CMP (C11): range, reflexivity, antisymmetry,
transitivity and int/float-spelling independence, by hand-applied structural induction.

Each lemma is split into (a) a top-level step that unfolds CMP once and uses the LEX/DLEX lemmas as hypotheses, and
(b) LEX/DLEX steps that unfold once at index k and use the induction hypotheses at k+1 and on the (structurally
smaller) elements. Every step is a quantifier-free query over uninterpreted CMP/LEX/DLEX.
Induction is well-founded on acyclic values (measure: tree height, then min(len)-k) — that meta-argument is stated,
not discharged.
"""
import time
import z3
from pyvc.core import V, VInt, VFloat, VStr, HeapSort, Int, is_int, is_float
from . import specs as sp

H = z3.Const('H', HeapSort)
a, b, c = z3.Consts('a b c', V)
k = z3.Int('k')


def elems(kind, x, y, kk):
    """the element pairs compared by LEX/DLEX at index kk: list of (x_elem, y_elem)"""
    h = sp.heap_of(H)
    if kind == 'LEX':
        return [(h.lget(V.lref(x), kk), h.lget(V.lref(y), kk))]
    kx = z3.Select(sp.SORTED_KEYS(H, V.dref(x)), kk)
    ky = z3.Select(sp.SORTED_KEYS(H, V.dref(y)), kk)
    return [(VStr(kx), VStr(ky)), (h.dget(V.dref(x), kx), h.dget(V.dref(y), ky))]


F = {'LEX': sp.LEX, 'DLEX': sp.DLEX}
DEF = {'LEX': sp.lex_def, 'DLEX': sp.dlex_def}


def rng(t):
    return z3.And(t >= -1, t <= 1)


def antisym(x, y):
    return sp.CMP(H, x, y) == -sp.CMP(H, y, x)


def trans_le(x, y, z):
    return z3.Implies(z3.And(sp.CMP(H, x, y) <= 0, sp.CMP(H, y, z) <= 0), sp.CMP(H, x, z) <= 0)


def unfold(x, y):
    return sp.CMP(H, x, y) == sp.cmp_def(H, x, y)


def obligations():
    obs = []
    # ---- range --------------------------------------------------------------------------------
    obs.append(('CMP.range.top', [unfold(a, b), rng(sp.LEX(H, a, b, 0)), rng(sp.DLEX(H, a, b, 0))], rng(sp.CMP(H, a, b))))
    for kind in ('LEX', 'DLEX'):
        hyp = [F[kind](H, a, b, k) == DEF[kind](H, a, b, k), rng(F[kind](H, a, b, k + 1))]
        hyp += [rng(sp.CMP(H, x, y)) for x, y in elems(kind, a, b, k)]
        obs.append((f'CMP.range.{kind}-step', hyp, rng(F[kind](H, a, b, k))))
    # ---- reflexivity --------------------------------------------------------------------------
    obs.append(('CMP.reflexive.top', [unfold(a, a), sp.LEX(H, a, a, 0) == 0, sp.DLEX(H, a, a, 0) == 0], sp.CMP(H, a, a) == 0))
    for kind in ('LEX', 'DLEX'):
        hyp = [F[kind](H, a, a, k) == DEF[kind](H, a, a, k), F[kind](H, a, a, k + 1) == 0]
        hyp += [sp.CMP(H, x, y) == 0 for x, y in elems(kind, a, a, k)]
        obs.append((f'CMP.reflexive.{kind}-step', hyp, F[kind](H, a, a, k) == 0))
    # ---- antisymmetry -------------------------------------------------------------------------
    obs.append(('CMP.antisymmetric.top',
                [unfold(a, b), unfold(b, a), sp.LEX(H, a, b, 0) == -sp.LEX(H, b, a, 0), sp.DLEX(H, a, b, 0) == -sp.DLEX(H, b, a, 0)],
                antisym(a, b)))
    for kind in ('LEX', 'DLEX'):
        hyp = [F[kind](H, a, b, k) == DEF[kind](H, a, b, k), F[kind](H, b, a, k) == DEF[kind](H, b, a, k),
               F[kind](H, a, b, k + 1) == -F[kind](H, b, a, k + 1)]
        hyp += [antisym(x, y) for x, y in elems(kind, a, b, k)]
        obs.append((f'CMP.antisymmetric.{kind}-step', hyp, F[kind](H, a, b, k) == -F[kind](H, b, a, k)))
    # ---- transitivity -------------------------------------------------------------------------
    def lex_trans(kind, kk):
        return z3.Implies(z3.And(F[kind](H, a, b, kk) <= 0, F[kind](H, b, c, kk) <= 0), F[kind](H, a, c, kk) <= 0)
    obs.append(('CMP.transitive.top',
                [unfold(a, b), unfold(b, c), unfold(a, c), lex_trans('LEX', 0), lex_trans('DLEX', 0)],
                trans_le(a, b, c)))
    for kind in ('LEX', 'DLEX'):
        hyp = [F[kind](H, x, y, k) == DEF[kind](H, x, y, k) for x, y in ((a, b), (b, c), (a, c))]
        hyp.append(lex_trans(kind, k + 1))
        ab, bc, ac = elems(kind, a, b, k), elems(kind, b, c, k), elems(kind, a, c, k)
        for (x, y), (_, z) in zip(ab, bc):
            for p, q, r in ((x, y, z), (x, z, y), (y, x, z), (y, z, x), (z, x, y), (z, y, x)):
                hyp.append(trans_le(p, q, r))
            for p, q in ((x, y), (y, z), (x, z)):
                hyp.append(antisym(p, q))
                hyp.append(rng(sp.CMP(H, p, q)))
        obs.append((f'CMP.transitive.{kind}-step', hyp, lex_trans(kind, k)))
    # ---- null first, type-name fallback -------------------------------------------------------
    obs.append(('CMP.null-first', [unfold(a, b), sp.is_none(a)], z3.If(sp.is_none(b), sp.CMP(H, a, b) == 0, sp.CMP(H, a, b) == -1)))
    obs.append(('CMP.different-types-by-type-name',
                [unfold(a, b), sp.type_name(a) != sp.type_name(b), z3.Not(sp.is_none(a)), z3.Not(sp.is_none(b))],
                sp.CMP(H, a, b) == sp.sgn_str(sp.type_name(a), sp.type_name(b))))
    # ---- int/float spelling -------------------------------------------------------------------
    n = z3.Int('n')
    obs.append(('CMP.int-float-spelling.left', [unfold(VInt(n), b), unfold(VFloat(z3.ToReal(n)), b)],
                sp.CMP(H, VInt(n), b) == sp.CMP(H, VFloat(z3.ToReal(n)), b)))
    obs.append(('CMP.int-float-spelling.right', [unfold(a, VInt(n)), unfold(a, VFloat(z3.ToReal(n)))],
                sp.CMP(H, a, VInt(n)) == sp.CMP(H, a, VFloat(z3.ToReal(n)))))
    # ---- must-fail (vacuity guard): CMP is NOT symmetric ------------------------------------------
    obs.append(('MUST-FAIL.CMP.symmetric', [unfold(a, b), unfold(b, a)], sp.CMP(H, a, b) == sp.CMP(H, b, a)))
    return obs


def discharge_all(timeout_ms=10000):
    out = []
    for name, hyp, goal in obligations():
        s = z3.Solver()
        s.set('timeout', timeout_ms)
        for h in hyp:
            s.add(h)
        s.add(z3.Not(goal))
        t0 = time.time()
        r = s.check()
        detail = ''
        if r == z3.sat:
            detail = str(s.model())[:1500]
        elif r == z3.unknown:
            from pyvc.solve import run_cvc5
            r5, outp = run_cvc5(s.to_smt2(), timeout_ms)
            if r5 in ('sat', 'unsat'):
                out.append((name, r5, 'cvc5', time.time() - t0, outp[:500]))
                continue
            detail = s.reason_unknown()
        out.append((name, str(r), 'z3', time.time() - t0, detail))
    return out


if __name__ == '__main__':
    for row in discharge_all():
        print(row[0], row[1], row[2], round(row[3], 3), row[4][:200] if row[1] != 'unsat' else '')
