"""contracts.lib_array — array*, object* semantic clauses (reference sequence/map model)."""
import z3
from pyvc.core import (V, VNone, VBool, VInt, VFloat, VStr, VList, VDict, is_none, is_list, is_dict, is_str,
                       Int, Str, Bool, Heap)
from .lib import LibFn
from .specs import num, as_index, is_number

j = z3.Int('j!spec')


def lam(body):
    return z3.Lambda([j], body)


def lref(v):
    return V.lref(v)


def dref(v):
    return V.dref(v)


# -- arrays ---------------------------------------------------------------------------------------

def array_copy(sp):
    a = lref(sp.a[0])
    return {'ret': ('fresh_list', sp.h.llen(a), sp.h.lels(a))}


def array_delete(sp):
    a, i = lref(sp.a[0]), as_index(sp.a[1])
    n, els = sp.h.llen(a), sp.h.lels(a)
    return {'ok': i < n, 'ret': ('val', VNone),
            'effects': [('list', a, n - 1, lam(z3.If(j < i, z3.Select(els, j), z3.Select(els, j + 1))))]}


def array_extend(sp):
    a, b = lref(sp.a[0]), lref(sp.a[1])
    n, m = sp.h.llen(a), sp.h.llen(b)
    return {'ret': ('val', sp.a[0]),
            'effects': [('list', a, n + m, lam(z3.If(j < n, sp.h.lget(a, j), sp.h.lget(b, j - n))))]}


def array_get(sp):
    a, i = lref(sp.a[0]), as_index(sp.a[1])
    return {'ok': i < sp.h.llen(a), 'ret': ('val', sp.h.lget(a, i))}


def array_length(sp):
    return {'ret': ('val', VInt(sp.h.llen(lref(sp.a[0]))))}


def array_new(sp):
    # the argument list itself becomes the new array
    return {'ret': ('val', VList(sp.argsref))}


def array_new_size(sp):
    size = as_index(sp.a[0])
    return {'ret': ('fresh_list', size, lam(sp.a[1]))}


def array_pop(sp):
    a = lref(sp.a[0])
    n = sp.h.llen(a)
    return {'ok': n > 0, 'ret': ('val', sp.h.lget(a, n - 1)), 'effects': [('list', a, n - 1, sp.h.lels(a))]}


def array_push(sp):
    a = lref(sp.a[0])
    n = sp.h.llen(a)
    cnt, els = sp.rest()
    return {'ret': ('val', sp.a[0]),
            'effects': [('list', a, n + cnt, lam(z3.If(j < n, sp.h.lget(a, j), z3.Select(els, j - n))))]}


def array_set(sp):
    a, i = lref(sp.a[0]), as_index(sp.a[1])
    n = sp.h.llen(a)
    return {'ok': i < n, 'ret': ('val', sp.a[2]),
            'effects': [('list', a, n, z3.Store(sp.h.lels(a), i, sp.a[2]))]}


def array_shift(sp):
    a = lref(sp.a[0])
    n = sp.h.llen(a)
    return {'ok': n > 0, 'ret': ('val', sp.h.lget(a, 0)),
            'effects': [('list', a, n - 1, lam(sp.h.lget(a, j + 1)))]}


def array_slice(sp):
    a = lref(sp.a[0])
    n = sp.h.llen(a)
    start = as_index(sp.a[1])
    end = z3.If(is_none(sp.a[2]), n, as_index(sp.a[2]))
    return {'ok': z3.And(start <= n, end <= n),
            'ret': ('fresh_list', z3.If(end > start, end - start, 0), lam(sp.h.lget(a, j + start)))}


# -- objects --------------------------------------------------------------------------------------

def object_copy(sp):
    o = dref(sp.a[0])
    return {'ret': ('fresh_dict', sp.h, o, True)}


def object_delete(sp):
    o, k = dref(sp.a[0]), V.s(sp.a[1])
    h = sp.h
    hexp = h.copy(HAS=z3.Store(h.HAS, o, z3.Store(z3.Select(h.HAS, o), k, z3.BoolVal(False))))
    return {'ret': ('val', VNone), 'effects': [('dict', o, hexp, False)]}


def object_get(sp):
    o, k = dref(sp.a[0]), V.s(sp.a[1])
    return {'ret': ('val', z3.If(sp.h.dhas(o, k), sp.h.dget(o, k), sp.a[2]))}


def object_has(sp):
    o, k = dref(sp.a[0]), V.s(sp.a[1])
    return {'ret': ('val', VBool(sp.h.dhas(o, k)))}


def object_keys(sp):
    o = dref(sp.a[0])
    return {'ret': ('fresh_list', sp.h.dnk(o), lam(VStr(sp.h.dkey(o, j))))}


def object_set(sp):
    o, k = dref(sp.a[0]), V.s(sp.a[1])
    return {'ret': ('val', sp.a[2]), 'effects': [('dict', o, sp.h.dset(o, k, sp.a[2]), True)]}


def object_assign(sp):
    o, o2 = dref(sp.a[0]), dref(sp.a[1])
    h = sp.h
    k = z3.String('k!oa')
    has = z3.Lambda([k], z3.Or(h.dhas(o, k), h.dhas(o2, k)))
    val = z3.Lambda([k], z3.If(h.dhas(o2, k), h.dget(o2, k), h.dget(o, k)))
    hexp = h.copy(HAS=z3.Store(h.HAS, o, has), VAL=z3.Store(h.VAL, o, val))
    return {'ret': ('val', sp.a[0]), 'effects': [('dict', o, hexp, False)]}


LIB = [
    LibFn('arrayCopy', 'library._array_copy', '_ARRAY_COPY_ARGS', None, array_copy),
    LibFn('arrayDelete', 'library._array_delete', '_ARRAY_DELETE_ARGS', None, array_delete),
    LibFn('arrayExtend', 'library._array_extend', '_ARRAY_EXTEND_ARGS', None, array_extend),
    LibFn('arrayGet', 'library._array_get', '_ARRAY_GET_ARGS', None, array_get),
    LibFn('arrayLength', 'library._array_length', '_ARRAY_LENGTH_ARGS', 0, array_length),
    LibFn('arrayNew', 'library._array_new', None, None, array_new, maxargs=0),
    LibFn('arrayNewSize', 'library._array_new_size', '_ARRAY_NEW_SIZE_ARGS', None, array_new_size),
    LibFn('arrayPop', 'library._array_pop', '_ARRAY_POP_ARGS', None, array_pop),
    LibFn('arrayPush', 'library._array_push', '_ARRAY_PUSH_ARGS', None, array_push),
    LibFn('arraySet', 'library._array_set', '_ARRAY_SET_ARGS', None, array_set),
    LibFn('arrayShift', 'library._array_shift', '_ARRAY_SHIFT_ARGS', None, array_shift),
    LibFn('arraySlice', 'library._array_slice', '_ARRAY_SLICE_ARGS', None, array_slice),
    LibFn('objectAssign', 'library._object_assign', '_OBJECT_ASSIGN_ARGS', None, object_assign),
    LibFn('objectCopy', 'library._object_copy', '_OBJECT_COPY_ARGS', None, object_copy),
    LibFn('objectDelete', 'library._object_delete', '_OBJECT_DELETE_ARGS', None, object_delete),
    LibFn('objectGet', 'library._object_get', '_OBJECT_GET_ARGS', 'arg2', object_get),
    LibFn('objectHas', 'library._object_has', '_OBJECT_HAS_ARGS', False, object_has),
    LibFn('objectKeys', 'library._object_keys', '_OBJECT_KEYS_ARGS', None, object_keys),
    LibFn('objectSet', 'library._object_set', '_OBJECT_SET_ARGS', None, object_set),
]
