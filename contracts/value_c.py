"""contracts.value_c — contracts of the value helpers used by other functions (modular calls)."""
import z3
from pyvc.core import (V, VNone, VStr, is_str, Str, Int, Bool, HeapSort)
from pyvc.contract import FnContract
from pyvc.models_calls import JSON_TEXT, ufun

VALUE_STRING = ufun('VALUE_STRING', HeapSort, V, Str)


def footprint_heap(K):
    """The heap a tree-recursive spec function is applied to. Fresh temporaries owned by the function under
    verification (its argument list, objects it allocated) are not reachable from script values, so the value of a
    tree-recursive function does not depend on them: they are masked back to their pre-state (trusted separation
    argument, DESIGN.md 3.10)."""
    base = K.ctx.ghost.get('pre_heap')
    if base is None:
        return K.heap.term()
    h0, temps = base
    h = K.heap
    r = z3.Int('r!fp')
    keep = z3.And(r < h0.alloc, *[r != t for t in temps])

    def mask(cur, old):
        return z3.Lambda([r], z3.If(keep, z3.Select(cur, r), z3.Select(old, r)))
    return HeapSort.mkheap(mask(h.LEN, h0.LEN), mask(h.ELS, h0.ELS), mask(h.HAS, h0.HAS), mask(h.VAL, h0.VAL),
                           mask(h.NK, h0.NK), mask(h.KEY, h0.KEY))


class ValueJson(FnContract):
    """value_json(value, indent): a pure function of the value tree (JSON_TEXT uninterpreted). Assumed total:
    cyclic containers and non-finite floats (ValueError) are outside the model."""
    qual = 'value.value_json'
    result = 'str'
    frame = 'pure'

    def post(self, K, out):
        if out.kind == 'return':
            return [('text', out.value.t == JSON_TEXT(footprint_heap(K), K.term(0), K.term(1)))]
        return []


class ValueString(FnContract):
    qual = 'value.value_string'
    result = 'str'
    frame = 'pure'

    def may_raise(self, K):
        # CPython refuses to print an int of more than 4300 digits (ValueError); containers holding one fail the same
        # way inside the JSON encoder (not modelled)
        v = K.term(0)
        from pyvc.core import is_int
        lim = z3.IntVal(10 ** 4300)
        return [('ValueError', z3.And(is_int(v), z3.Or(V.i(v) >= lim, V.i(v) <= -lim)))]

    def post(self, K, out):
        if out.kind == 'return':
            v = K.term(0)
            return [('text', out.value.t == VALUE_STRING(footprint_heap(K), v)),
                    ('identity-on-strings', z3.Implies(is_str(v), out.value.t == V.s(v)))]
        return []


BASE = {c.qual: c for c in (ValueJson(), ValueString())}
BASE_INLINE = {'value.value_args_validate', 'value.value_boolean', 'value.value_type', 'value.value_round_number',
               'value.value_normalize_datetime', 'value.value_is'}


# ---------------------------------------------------------------------------------------------
# value_compare (C11)
# ---------------------------------------------------------------------------------------------
from pyvc.models_loops import LoopSpec                     # noqa: E402
from . import specs as sp_                                 # noqa: E402


class ValueCompare(FnContract):
    replay_prepare = sp_.replay_prepare_cmp

    """result = CMP(H, left, right), no effects, no exception (acyclic values)."""
    qual = 'value.value_compare'
    result = 'int'
    frame = 'pure'
    inline = ('value.value_type', 'value.value_normalize_datetime')

    def H(self, K):
        return footprint_heap(K)

    def axioms(self, K):
        H = self.H(K)
        a, b = K.term(0), K.term(1)
        return [('CMP-def', sp_.CMP(H, a, b) == sp_.cmp_def(H, a, b))]

    def post(self, K, out):
        if out.kind != 'return':
            return [('no-exception', False)]
        from pyvc.models_ops import int_term
        r = int_term(K.ip, out.value)
        return [('is-CMP', r == sp_.CMP(self.H(K), K.term(0), K.term(1))),
                ('range', z3.And(r >= -1, r <= 1))]

    @property
    def loop_specs(self):
        def inv_list(L):
            H = L.ctx.ghost['K'].heap.term()
            a, b = L.term('left'), L.term('right')
            h = L.heap
            na, nb = h.llen(V.lref(a)), h.llen(V.lref(b))
            return [('index-range', z3.And(L.k >= 0, z3.Or(L.k <= na, L.k <= nb), z3.Implies(na <= nb, L.k <= na),
                                           z3.Implies(nb <= na, L.k <= nb))),
                    ('lex-suffix', sp_.LEX(H, a, b, 0) == sp_.LEX(H, a, b, L.k))]

        def lem_list(L):
            H = L.ctx.ghost['K'].heap.term()
            a, b = L.term('left'), L.term('right')
            return [sp_.LEX(H, a, b, L.k) == sp_.lex_def(H, a, b, L.k)]

        def inv_dict(L):
            H = L.ctx.ghost['K'].heap.term()
            a, b = L.term('left'), L.term('right')
            h = L.heap
            na, nb = h.dnk(V.dref(a)), h.dnk(V.dref(b))
            return [('index-range', z3.And(L.k >= 0, z3.Implies(na <= nb, L.k <= na), z3.Implies(nb <= na, L.k <= nb))),
                    ('dlex-suffix', sp_.DLEX(H, a, b, 0) == sp_.DLEX(H, a, b, L.k))]

        def lem_dict(L):
            H = L.ctx.ghost['K'].heap.term()
            a, b = L.term('left'), L.term('right')
            return [sp_.DLEX(H, a, b, L.k) == sp_.dlex_def(H, a, b, L.k)]

        return {('value.value_compare', 0): LoopSpec(inv_list, heap='unchanged', lemmas=lem_list,
                                                     header='range(min(len(left), len(right)))'),
                ('value.value_compare', 1): LoopSpec(inv_dict, heap='unchanged', lemmas=lem_dict,
                                                     header='range(min(len(left_key_values), len(right_key_values)))')}


VALUE_COMPARE = ValueCompare()
BASE[VALUE_COMPARE.qual] = VALUE_COMPARE


# ---------------------------------------------------------------------------------------------
# value_parse_datetime (C16: text that is not a valid ISO date or datetime parses to null instead of failing)
# ---------------------------------------------------------------------------------------------
from pyvc.core import T, is_date, is_none                 # noqa: E402


class ValueParseDatetime(FnContract):
    qual = 'value.value_parse_datetime'
    frame = 'pure'

    def params(self, ip):
        return [T(ip.ctx.fresh('text', Str))]

    def post(self, K, out):
        if out.kind == 'raise':
            return [('C16.never-fails', False)]
        v = K.ctx.to_term(out.value)
        return [('C16.null-or-a-naive-datetime', z3.Or(is_none(v), z3.And(is_date(v), V.kind(v) == 1)))]


VALUE_PARSE_DATETIME = ValueParseDatetime()

PARSE_DATETIME_WITNESS = """
from bare_script.value import value_parse_datetime
bad = []
for text in ['2024-02-30', '2024-13-01', '0000-01-01', '2024-13-01T00:00:00Z', '2024-02-30T10:00:00+00:00', '2024-01-01T25:00:00Z',
             '2024-01-15', '2024-01-15T10:20:30Z', 'abc']:
    try:
        value_parse_datetime(text)
    except Exception as exc:
        bad.append({'text': text, 'observed': type(exc).__name__ + ': ' + str(exc)})
result = {'violates': bool(bad), 'counterexamples': bad[:3]}
"""
ValueParseDatetime.native_witness = {'C16.never-fails': PARSE_DATETIME_WITNESS}


# ---------------------------------------------------------------------------------------------
# value_string verified against its own contract (number arms: C13)
# ---------------------------------------------------------------------------------------------
from pyvc.core import is_int, is_float, is_bool, VNone            # noqa: E402
from pyvc.models_ops import STR_OF_INT, STR_OF_REAL                # noqa: E402


class ValueStringImpl(FnContract):
    """value_string on scalars: null/true/false literals, strings unchanged, ints through str(), floats through
    str() followed by the clean-up substitution; never raises on scalars (within the int digit limit)"""
    qual = 'value.value_string'
    frame = 'pure'
    inline = ('value.value_normalize_datetime',)

    def pre(self, K):
        v = K.term(0)
        from pyvc.core import is_list, is_dict, is_date
        lim = z3.IntVal(10 ** 4300)
        return [('scalar', z3.Not(z3.Or(is_list(v), is_dict(v), is_date(v)))),
                ('printable-int', z3.Implies(is_int(v), z3.And(V.i(v) < lim, V.i(v) > -lim)))]

    def post(self, K, out):
        if out.kind == 'raise':
            return [('C13.never-fails-on-scalars', False)]
        v = K.term(0)
        r = K.ctx.to_term(out.value)
        cleanup = ufun('RESUB_value.R_NUMBER_CLEANUP_', Str, Str)
        return [('C13.result-is-text', is_str(r)),
                ('C13.integers-print-through-str', z3.Implies(is_int(v), r == VStr(STR_OF_INT(V.i(v))))),
                ('C13.floats-print-through-repr-and-the-zero-fraction-cleanup',
                 z3.Implies(is_float(v), r == VStr(cleanup(STR_OF_REAL(V.r(v)))))),
                ('strings-unchanged', z3.Implies(is_str(v), r == v)),
                ('null', z3.Implies(v == VNone, r == VStr(z3.StringVal('null'))))]


import os as _os
with open(_os.path.join(_os.path.dirname(_os.path.dirname(_os.path.abspath(__file__))), 'native', 'witness', 'number_text_witness.py'),
          encoding='utf-8') as _fh:
    NUMBER_TEXT_WITNESS = _fh.read()
ValueStringImpl.native_witness = {'C13.floats-print-through-repr-and-the-zero-fraction-cleanup': NUMBER_TEXT_WITNESS,
                                  'C13.integers-print-through-str': NUMBER_TEXT_WITNESS}
VALUE_STRING_IMPL = ValueStringImpl()
VALUE_STRING_IMPL.callee_contracts = {'value.value_json': BASE['value.value_json']}

VALUE_COMPARE_WITNESS = """
import datetime
from bare_script.value import value_compare
bad = []
tz = datetime.timezone(datetime.timedelta(hours=5))
naive = datetime.datetime(2020, 1, 1, 12)
aware = naive.astimezone().astimezone(tz)
vals = [None, False, True, 0, 1, 1.0, 2.5, '', 'a', 'b', naive, aware, datetime.date(2020, 1, 1), [], [1], [1, 2], [1.0], {}, {'a': 1}, {'a': 2}, len,
        # machine-number edges (the logic treats ints and floats as mathematical numbers): integers around 2**53 against
        # floats, infinities, an int beyond the float range
        2 ** 53, 2 ** 53 + 1, float(2 ** 53), -(2 ** 53) - 1, float('inf'), float('-inf'), 10 ** 400, -1e308, 1e308]
nums = [v for v in vals if isinstance(v, (int, float)) and not isinstance(v, bool)]
for a in nums:
    for b in nums:
        for c in nums:
            try:
                if value_compare(a, b) <= 0 and value_compare(b, c) <= 0 and value_compare(a, c) > 0:
                    bad.append({'what': 'not transitive', 'values': [repr(a), repr(b), repr(c)]})
            except Exception:
                pass
for a in vals:
    for b in vals:
        try:
            ab, ba = value_compare(a, b), value_compare(b, a)
        except Exception as exc:
            bad.append({'left': repr(a), 'right': repr(b), 'observed': type(exc).__name__ + ': ' + str(exc)[:60]})
            continue
        if ab not in (-1, 0, 1) or ab != -ba:
            bad.append({'left': repr(a), 'right': repr(b), 'observed': [ab, ba], 'expected': 'antisymmetric sign'})
if value_compare(naive, aware) != 0:
    bad.append({'what': 'the same instant in two zones compares equal', 'observed': value_compare(naive, aware)})
if value_compare(1, 1.0) != 0 or value_compare([1], [1.0]) != 0 or value_compare(None, False) != -1 or value_compare(1, True) != 1:
    bad.append({'what': 'spelling / null first / type-name fallback'})
result = {'violates': bool(bad), 'counterexamples': bad[:2]}
"""
ValueCompare.native_witness = {'is-CMP': VALUE_COMPARE_WITNESS, 'no-exception': VALUE_COMPARE_WITNESS}
