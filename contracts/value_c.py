"""contracts.value_c — contracts of the value helpers used by other functions (modular calls)."""
import z3
from pyvc.core import (V, VNone, VStr, is_str, Str, Int, Bool, HeapSort)
from pyvc.contract import FnContract
from pyvc.models_calls import JSON_TEXT, ufun

VALUE_STRING = ufun('VALUE_STRING', HeapSort, V, Str)


def footprint_heap(K):
    """The heap a tree-recursive spec function is applied to. Fresh temporaries owned by the function under
    verification (its argument list, objects it allocated) are not reachable from script values, so the value of a
    tree-recursive function does not depend on them: they are masked back to their pre-state (trusted separation
    argument, DESIGN.md 3.10)."""
    base = K.ctx.ghost.get('pre_heap')
    if base is None:
        return K.heap.term()
    h0, temps = base
    h = K.heap
    r = z3.Int('r!fp')
    keep = z3.And(r < h0.alloc, *[r != t for t in temps])

    def mask(cur, old):
        return z3.Lambda([r], z3.If(keep, z3.Select(cur, r), z3.Select(old, r)))
    return HeapSort.mkheap(mask(h.LEN, h0.LEN), mask(h.ELS, h0.ELS), mask(h.HAS, h0.HAS), mask(h.VAL, h0.VAL),
                           mask(h.NK, h0.NK), mask(h.KEY, h0.KEY))


class ValueJson(FnContract):
    """value_json(value, indent): a pure function of the value tree (JSON_TEXT uninterpreted). Assumed total:
    cyclic containers and non-finite floats (ValueError) are outside the model."""
    qual = 'value.value_json'
    result = 'str'
    frame = 'pure'

    def post(self, K, out):
        if out.kind == 'return':
            return [('text', out.value.t == JSON_TEXT(footprint_heap(K), K.term(0), K.term(1)))]
        return []


class ValueString(FnContract):
    qual = 'value.value_string'
    result = 'str'
    frame = 'pure'

    def post(self, K, out):
        if out.kind == 'return':
            v = K.term(0)
            return [('text', out.value.t == VALUE_STRING(footprint_heap(K), v)),
                    ('identity-on-strings', z3.Implies(is_str(v), out.value.t == V.s(v)))]
        return []


BASE = {c.qual: c for c in (ValueJson(), ValueString())}
BASE_INLINE = {'value.value_args_validate', 'value.value_boolean', 'value.value_type', 'value.value_round_number',
               'value.value_normalize_datetime', 'value.value_is'}
