"""contracts.value_c — contracts of the value helpers used by other functions (modular calls)."""
import z3
from pyvc.core import (V, VNone, VStr, is_str, Str, Int, Bool, HeapSort)
from pyvc.contract import FnContract
from pyvc.models_calls import JSON_TEXT, ufun

VALUE_STRING = ufun('VALUE_STRING', HeapSort, V, Str)


def footprint_heap(K):
    """The heap a tree-recursive spec function is applied to. Fresh temporaries owned by the function under
    verification (its argument list, objects it allocated) are not reachable from script values, so the value of a
    tree-recursive function does not depend on them: they are masked back to their pre-state (trusted separation
    argument, DESIGN.md 3.10)."""
    base = K.ctx.ghost.get('pre_heap')
    if base is None:
        return K.heap.term()
    h0, temps = base
    h = K.heap
    r = z3.Int('r!fp')
    keep = z3.And(r < h0.alloc, *[r != t for t in temps])

    def mask(cur, old):
        return z3.Lambda([r], z3.If(keep, z3.Select(cur, r), z3.Select(old, r)))
    return HeapSort.mkheap(mask(h.LEN, h0.LEN), mask(h.ELS, h0.ELS), mask(h.HAS, h0.HAS), mask(h.VAL, h0.VAL),
                           mask(h.NK, h0.NK), mask(h.KEY, h0.KEY))


class ValueJson(FnContract):
    """value_json(value, indent): a pure function of the value tree (JSON_TEXT uninterpreted). Assumed total:
    cyclic containers and non-finite floats (ValueError) are outside the model."""
    qual = 'value.value_json'
    result = 'str'
    frame = 'pure'

    def post(self, K, out):
        if out.kind == 'return':
            return [('text', out.value.t == JSON_TEXT(footprint_heap(K), K.term(0), K.term(1)))]
        return []


class ValueString(FnContract):
    qual = 'value.value_string'
    result = 'str'
    frame = 'pure'

    def may_raise(self, K):
        # CPython refuses to print an int of more than 4300 digits (ValueError); containers holding one fail the same
        # way inside the JSON encoder (not modelled)
        v = K.term(0)
        from pyvc.core import is_int
        lim = z3.IntVal(10 ** 4300)
        return [('ValueError', z3.And(is_int(v), z3.Or(V.i(v) >= lim, V.i(v) <= -lim)))]

    def post(self, K, out):
        if out.kind == 'return':
            v = K.term(0)
            return [('text', out.value.t == VALUE_STRING(footprint_heap(K), v)),
                    ('identity-on-strings', z3.Implies(is_str(v), out.value.t == V.s(v)))]
        return []


BASE = {c.qual: c for c in (ValueJson(), ValueString())}
BASE_INLINE = {'value.value_args_validate', 'value.value_boolean', 'value.value_type', 'value.value_round_number',
               'value.value_normalize_datetime', 'value.value_is'}


# ---------------------------------------------------------------------------------------------
# value_compare (C11)
# ---------------------------------------------------------------------------------------------
from pyvc.models_loops import LoopSpec                     # noqa: E402
from . import specs as sp_                                 # noqa: E402


class ValueCompare(FnContract):
    """result = CMP(H, left, right), no effects, no exception (acyclic values)."""
    qual = 'value.value_compare'
    result = 'int'
    frame = 'pure'
    inline = ('value.value_type', 'value.value_normalize_datetime')

    def H(self, K):
        return footprint_heap(K)

    def axioms(self, K):
        H = self.H(K)
        a, b = K.term(0), K.term(1)
        return [('CMP-def', sp_.CMP(H, a, b) == sp_.cmp_def(H, a, b))]

    def post(self, K, out):
        if out.kind != 'return':
            return [('no-exception', False)]
        from pyvc.models_ops import int_term
        r = int_term(K.ip, out.value)
        return [('is-CMP', r == sp_.CMP(self.H(K), K.term(0), K.term(1))),
                ('range', z3.And(r >= -1, r <= 1))]

    @property
    def loop_specs(self):
        def inv_list(L):
            H = L.ctx.ghost['K'].heap.term()
            a, b = L.term('left'), L.term('right')
            h = L.heap
            na, nb = h.llen(V.lref(a)), h.llen(V.lref(b))
            return [('index-range', z3.And(L.k >= 0, z3.Or(L.k <= na, L.k <= nb), z3.Implies(na <= nb, L.k <= na),
                                           z3.Implies(nb <= na, L.k <= nb))),
                    ('lex-suffix', sp_.LEX(H, a, b, 0) == sp_.LEX(H, a, b, L.k))]

        def lem_list(L):
            H = L.ctx.ghost['K'].heap.term()
            a, b = L.term('left'), L.term('right')
            return [sp_.LEX(H, a, b, L.k) == sp_.lex_def(H, a, b, L.k)]

        def inv_dict(L):
            H = L.ctx.ghost['K'].heap.term()
            a, b = L.term('left'), L.term('right')
            h = L.heap
            na, nb = h.dnk(V.dref(a)), h.dnk(V.dref(b))
            return [('index-range', z3.And(L.k >= 0, z3.Implies(na <= nb, L.k <= na), z3.Implies(nb <= na, L.k <= nb))),
                    ('dlex-suffix', sp_.DLEX(H, a, b, 0) == sp_.DLEX(H, a, b, L.k))]

        def lem_dict(L):
            H = L.ctx.ghost['K'].heap.term()
            a, b = L.term('left'), L.term('right')
            return [sp_.DLEX(H, a, b, L.k) == sp_.dlex_def(H, a, b, L.k)]

        return {('value.value_compare', 0): LoopSpec(inv_list, heap='unchanged', lemmas=lem_list,
                                                     header='range(min(len(left), len(right)))'),
                ('value.value_compare', 1): LoopSpec(inv_dict, heap='unchanged', lemmas=lem_dict,
                                                     header='range(min(len(left_key_values), len(right_key_values)))')}


VALUE_COMPARE = ValueCompare()
BASE[VALUE_COMPARE.qual] = VALUE_COMPARE
