"""contracts.value_c — contracts of the value helpers used by other functions (modular calls)."""
import z3
from pyvc.core import (V, VNone, VStr, is_str, Str, Int, Bool, HeapSort)
from pyvc.contract import FnContract
from pyvc.models_calls import JSON_TEXT, ufun

VALUE_STRING = ufun('VALUE_STRING', HeapSort, V, Str)


class ValueJson(FnContract):
    """value_json(value, indent): a pure function of the value tree (JSON_TEXT uninterpreted). Assumed total:
    cyclic containers and non-finite floats (ValueError) are outside the model."""
    qual = 'value.value_json'
    result = 'str'
    frame = 'pure'

    def post(self, K, out):
        if out.kind == 'return':
            return [('text', out.value.t == JSON_TEXT(K.heap.term(), K.term(0), K.term(1)))]
        return []


class ValueString(FnContract):
    qual = 'value.value_string'
    result = 'str'
    frame = 'pure'

    def post(self, K, out):
        if out.kind == 'return':
            v = K.term(0)
            return [('text', out.value.t == VALUE_STRING(K.heap.term(), v)),
                    ('identity-on-strings', z3.Implies(is_str(v), out.value.t == V.s(v)))]
        return []


BASE = {c.qual: c for c in (ValueJson(), ValueString())}
BASE_INLINE = {'value.value_args_validate', 'value.value_boolean', 'value.value_type', 'value.value_round_number',
               'value.value_normalize_datetime', 'value.value_is'}
