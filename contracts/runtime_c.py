"""contracts.runtime_c — contracts for runtime.py: evaluate_expression, _execute_script_helper, _script_function,
execute_script (C03, C04, C05, C08, C09, C17 and the consumers of C11/C12/C16).

Model immutability is made structural: the script model lives in a frozen region of the heap (references below the
ghost bound MB, contents given by the ghost heap MH). Every heap that the verified code can observe is
`mask(h) = lambda r. r < MB ? MH[r] : h[r]`; host/library calls havoc only the unfrozen part (assumption on host
functions, C08). The proof obligations then show that runtime.py itself never stores below MB.
"""
import ast
import z3
from pyvc.core import (V, VNone, VBool, VInt, VFloat, VStr, VList, VDict, VDate, VFunc, is_none, is_bool, is_int,
                       is_float, is_str, is_list, is_dict, is_date, is_func, is_regex, is_other, Str, Int, Real, Bool,
                       Heap, HeapSort, wf_value, Val, C, S, B, I, R, T, Obj)
from pyvc.contract import FnContract, Outcome
from pyvc.interp import PyRaise, make_exc, OutOfReach
from pyvc.models_ops import norm
from pyvc.models_loops import LoopSpec
from pyvc.models_calls import ufun
from . import specs as sp_

MH = Heap.fresh('_MODEL')
MB = z3.Int('MODEL_BOUND')

WFEXPR = ufun('WFEXPR', V, Bool)
PARSED_EXPR = ufun('PARSED_EXPR', V, Bool)      # an expression model returned by parse_expression
ARGRES = ufun('ARGRES', Int, V)          # ghost: the value the i-th call argument evaluated to
EXPRFN_HAS = ufun('TABLE_HAS_library.EXPRESSION_FUNCTIONS', Str, Bool)
EXPRFN = ufun('TABLE_library.EXPRESSION_FUNCTIONS', Str, V)
BINARY_OPS = ['**', '*', '/', '%', '+', '-', '<=', '<', '>=', '>', '==', '!=', '&&', '||']
EXPR_KEYS = ['number', 'string', 'variable', 'function', 'binary', 'unary', 'group']


def mask(h):
    """the observable heap: frozen model region below MB, h above"""
    r = z3.Int('r!mask')

    def m(model_arr, arr):
        return z3.Lambda([r], z3.If(z3.And(r >= 0, r < MB), z3.Select(model_arr, r), z3.Select(arr, r)))
    return Heap(m(MH.LEN, h.LEN), m(MH.ELS, h.ELS), m(MH.HAS, h.HAS), m(MH.VAL, h.VAL), m(MH.NK, h.NK),
                m(MH.KEY, h.KEY), h.alloc)


def masked_fresh(ctx):
    return mask(ctx.fresh_heap('loop'))


def frozen(h):
    """h agrees with the model heap below MB"""
    r = z3.Int('r!frz')
    inr = z3.And(r >= 0, r < MB)
    return z3.ForAll([r], z3.Implies(inr, z3.And(
        z3.Select(h.LEN, r) == z3.Select(MH.LEN, r), z3.Select(h.ELS, r) == z3.Select(MH.ELS, r),
        z3.Select(h.HAS, r) == z3.Select(MH.HAS, r), z3.Select(h.VAL, r) == z3.Select(MH.VAL, r),
        z3.Select(h.NK, r) == z3.Select(MH.NK, r), z3.Select(h.KEY, r) == z3.Select(MH.KEY, r))))


def in_model(ref):
    return z3.And(ref >= 0, ref < MB)


def model_dict(v):
    return z3.And(is_dict(v), in_model(V.dref(v)))


def single_key(ref, key):
    k = z3.String('k!sk')
    return z3.And(MH.dnk(ref) == 1, MH.dkey(ref, 0) == key,
                  z3.ForAll([k], MH.dhas(ref, k) == (k == key)))


def one_of(term, options):
    return z3.Or([term == z3.StringVal(o) for o in options])


def wfexpr_def(e):
    """schema validity of an expression model (model.py: Expression), one level"""
    r = V.dref(e)
    key = MH.dkey(r, 0)

    def sub(k):
        return MH.dget(r, z3.StringVal(k))
    fn, bn, un = sub('function'), sub('binary'), sub('unary')
    i = z3.Int('i!wfa')
    args = MH.dget(V.dref(fn), z3.StringVal('args'))
    return z3.And(
        model_dict(e), single_key(r, key), one_of(key, EXPR_KEYS),
        z3.Implies(key == 'number', sp_.is_number(sub('number'))),
        z3.Implies(key == 'string', is_str(sub('string'))),
        z3.Implies(key == 'variable', is_str(sub('variable'))),
        z3.Implies(key == 'group', WFEXPR(sub('group'))),
        z3.Implies(key == 'unary', z3.And(
            model_dict(un), MH.dhas(V.dref(un), z3.StringVal('op')), MH.dhas(V.dref(un), z3.StringVal('expr')),
            is_str(MH.dget(V.dref(un), z3.StringVal('op'))),
            one_of(V.s(MH.dget(V.dref(un), z3.StringVal('op'))), ['!', '-']),
            WFEXPR(MH.dget(V.dref(un), z3.StringVal('expr'))))),
        z3.Implies(key == 'binary', z3.And(
            model_dict(bn), MH.dhas(V.dref(bn), z3.StringVal('op')), MH.dhas(V.dref(bn), z3.StringVal('left')),
            MH.dhas(V.dref(bn), z3.StringVal('right')), is_str(MH.dget(V.dref(bn), z3.StringVal('op'))),
            one_of(V.s(MH.dget(V.dref(bn), z3.StringVal('op'))), BINARY_OPS),
            WFEXPR(MH.dget(V.dref(bn), z3.StringVal('left'))), WFEXPR(MH.dget(V.dref(bn), z3.StringVal('right'))))),
        z3.Implies(key == 'function', z3.And(
            model_dict(fn), MH.dhas(V.dref(fn), z3.StringVal('name')),
            is_str(MH.dget(V.dref(fn), z3.StringVal('name'))),
            z3.Implies(MH.dhas(V.dref(fn), z3.StringVal('args')), z3.And(
                is_list(args), in_model(V.lref(args)), MH.llen(V.lref(args)) >= 0,
                z3.ForAll([i], z3.Implies(z3.And(i >= 0, i < MH.llen(V.lref(args))),
                                          WFEXPR(MH.lget(V.lref(args), i)))))))))


def wf_options(h, o):
    """options is None or an unfrozen dict whose 'globals', if present, is None or an unfrozen dict"""
    g = h.dget(V.dref(o), z3.StringVal('globals'))
    return z3.Or(is_none(o), z3.And(
        is_dict(o), V.dref(o) >= MB, V.dref(o) < h.alloc,
        z3.Implies(h.dhas(V.dref(o), z3.StringVal('globals')),
                   z3.Or(is_none(g), z3.And(is_dict(g), V.dref(g) >= MB, V.dref(g) < h.alloc, V.dref(g) != V.dref(o))))))


def wf_locals(h, l):
    return z3.Or(is_none(l), z3.And(is_dict(l), V.dref(l) >= MB, V.dref(l) < h.alloc))


# ---------------------------------------------------------------------------------------------
# host / library function values
# ---------------------------------------------------------------------------------------------

def callable_model(ip, callee, args, kwargs, frame, node):
    """Contract of an unknown function value called as f(args, options) or logFn(text):
    arbitrary effects on the unfrozen heap, arbitrary result, may raise any Exception subclass (log functions are
    assumed not to raise: they are called outside any handler, C05 host assumption)."""
    ctx = ip.ctx
    src = ast.unparse(node.func) if node is not None else ''
    is_log = 'logFn' in src or 'log_fn' in src or 'url_fn' in src     # called outside any handler: assumed total
    h0 = ctx.heap
    argt = [ctx.to_term(a) if not isinstance(a, Obj) else None for a in args]
    for a in args:
        ctx.escape(a)
    fresh = ctx.fresh_heap('host')
    ctx.assume(fresh.alloc >= h0.alloc)
    ctx.heap = ctx.keep_owned(h0, mask(fresh))
    # host assumption: a host/library function leaves the options object it can reach well formed
    for o in ctx.ghost.get('options_terms', []):
        ctx.assume(z3.Implies(wf_options(h0, o), wf_options(ctx.heap, o)))
        # C09 host assumption: a host function keeps the run options well formed and never lowers the counter
        ctx.assume(z3.Implies(wf_run_options(h0, o), z3.And(wf_run_options(ctx.heap, o),
                                                            count_of(ctx.heap, o) >= count_of(h0, o))))
    event = {'kind': 'callable', 'fn': callee, 'args': list(args), 'arg_terms': argt, 'src': src,
             'heap_before': h0, 'heap_after': ctx.heap}
    ctx.ghost.setdefault('events', []).append(event)
    if not is_log and ctx.choice('host_raises'):
        exc = make_exc(None, [])
        exc.f['cls'] = ('sub', 'Exception')
        event['outcome'] = Outcome('raise', exc=exc)
        raise PyRaise(exc)
    v = ctx.fresh_v('hostres')
    ctx.assume(wf_value(ctx.heap, v))
    event['outcome'] = Outcome('return', value=S(v))
    return S(v)


# ---------------------------------------------------------------------------------------------
# evaluate_expression
# ---------------------------------------------------------------------------------------------

class EvaluateExpression(FnContract):
    qual = 'runtime.evaluate_expression'
    frame = 'havoc'
    inline = ('value.value_boolean', 'value.value_normalize_datetime', 'value.value_round_number', 'runtime._is_number')

    def params(self, ip):
        ctx = ip.ctx
        base = ctx.heap
        ctx.assume(z3.And(MB >= 0, MB <= base.alloc))
        ctx.heap = mask(base)
        expr = ctx.fresh('expr', V)
        options = ctx.fresh('options', V)
        locals_ = ctx.fresh('locals_', V)
        builtins = ctx.fresh('builtins', Bool)
        ctx.ghost['options_terms'] = [options]
        return [S(expr), S(options), S(locals_), B(builtins)]

    def pre(self, K):
        h = K.heap
        return [('wf-expr', z3.Or(WFEXPR(K.term(0)), PARSED_EXPR(K.term(0)))),
                ('wf-options', wf_options(h, K.term(1))),
                ('wf-locals', wf_locals(h, K.term(2))),
                ('model-frozen', frozen(h))]

    def axioms(self, K):
        e = K.term(0)
        out = [('WFEXPR-def', z3.Implies(WFEXPR(e), wfexpr_def(e)))]
        if K.ctx.ghost.get('K') is K:
            # verified for a model in the frozen region; an expression returned by parse_expression is the same contract
            # instantiated with its own region (meta-argument)
            out.append(('verified-for-frozen-models', WFEXPR(e)))
        # shallow consequences of well-formedness for the direct sub-expressions (instances of the definition)
        args = _sub(e, 'function', 'args')
        kids = [_sub(e, 'group'), _sub(e, 'unary', 'expr'), _sub(e, 'binary', 'left'), _sub(e, 'binary', 'right')]
        kids += [MH.lget(V.lref(args), z3.IntVal(i)) for i in range(3)]
        for ix, kid in enumerate(kids):
            out.append((f'WFEXPR-shallow{ix}', z3.Implies(WFEXPR(kid), z3.And(model_dict(kid), MH.dnk(V.dref(kid)) == 1))))
        return out

    def cases(self):
        """case split of the precondition by expression kind (and operator) — one verification job each"""
        def key_of(K):
            return MH.dkey(V.dref(K.term(0)), 0)

        def op_of(K):
            b = MH.dget(V.dref(K.term(0)), z3.StringVal('binary'))
            return V.s(MH.dget(V.dref(b), z3.StringVal('op')))
        out = []
        def fname(K):
            f = MH.dget(V.dref(K.term(0)), z3.StringVal('function'))
            return V.s(MH.dget(V.dref(f), z3.StringVal('name')))
        for k in EXPR_KEYS:
            if k == 'function':
                out.append(('function-if', lambda K: [key_of(K) == z3.StringVal('function'), fname(K) == z3.StringVal('if')]))
                out.append(('function-call', lambda K: [key_of(K) == z3.StringVal('function'), fname(K) != z3.StringVal('if')]))
            elif k != 'binary':
                out.append((k, lambda K, k=k: [key_of(K) == z3.StringVal(k)]))
        for op in BINARY_OPS:
            out.append((f'binary{op}', lambda K, op=op: [key_of(K) == z3.StringVal('binary'), op_of(K) == z3.StringVal(op)]))
        return out

    # -- replay support ---------------------------------------------------------------------
    replay_skip_pre = ('wf-expr',)     # WFEXPR is uninterpreted; the replayed model is built from a model of it

    def concretize_extra(self, model, K):
        return {'MB': model.eval(MB, model_completion=True).as_long()}

    def ground_subst(self, inputs, h0):
        mb = inputs.get('extra', {}).get('MB', 0)
        return [(MB, z3.IntVal(mb)), (MH.LEN, h0.LEN), (MH.ELS, h0.ELS), (MH.HAS, h0.HAS), (MH.VAL, h0.VAL),
                (MH.NK, h0.NK), (MH.KEY, h0.KEY)]

    def havoc_heap(self, ip, h0):
        fresh = ip.ctx.fresh_heap('eval')
        ip.ctx.assume(fresh.alloc >= h0.alloc)
        return mask(fresh)

    def may_raise(self, K):
        return [('BareScriptRuntimeError', None), ('BareScriptParserError', None)]

    def post(self, K, out):
        h1 = K.heap_after
        obs = []
        if out.kind == 'raise':
            ip = K.ip
            ok = [ip.exc_isinstance(out.exc, 'BareScriptRuntimeError'), ip.exc_isinstance(out.exc, 'BareScriptParserError')]
            if any(x is True for x in ok):
                contained = True
            else:
                parts = [x for x in ok if x is not False]
                contained = z3.Or(parts) if parts else False
            obs.append(('C05.only-documented-exceptions-escape', contained))
        else:
            obs.append(('result-wf', wf_value(h1, K.ctx.to_term(out.value))))
        obs.append(('C08.model-unmodified', frozen(h1)))
        obs.append(('options-still-wf', z3.And(wf_options(h1, K.term(1)), wf_locals(h1, K.term(2)))))
        o = K.term(1)
        obs.append(('C09.run-options-preserved',
                    z3.Implies(wf_run_options(K.heap, o), z3.And(wf_run_options(h1, o), count_of(h1, o) >= count_of(K.heap, o)))))
        if K.ctx.ghost.get('K') is K:
            obs += eval_step_spec(self, K, out)
        return obs

    @property
    def loop_specs(self):
        def inv_args(L):
            h = L.heap
            tmp = L.term('__comp0')
            i = z3.Int('i!argres')
            return [('tmp-is-fresh-list', z3.And(is_list(tmp), V.lref(tmp) >= MB, V.lref(tmp) < h.alloc)),
                    ('tmp-length', h.llen(V.lref(tmp)) == L.k),
                    ('index-in-range', L.k <= MH.llen(V.lref(_sub(L.ctx.ghost['K'].term(0), 'function', 'args')))),
                    ('tmp-elements-are-the-argument-values-in-order',
                     z3.ForAll([i], z3.Implies(z3.And(i >= 0, i < L.k), h.lget(V.lref(tmp), i) == ARGRES(i)))),
                    ('model-frozen', frozen(h)),
                    ('options-wf', z3.And(wf_options(h, L.term('options')), wf_locals(h, L.term('locals_')))),
                    ('C09.run-options-preserved',
                     z3.Implies(wf_run_options(L.heap0, L.term('options')),
                                z3.And(wf_run_options(h, L.term('options')),
                                       count_of(h, L.term('options')) >= count_of(L.heap0, L.term('options')))))]

        def body_args(L, events):
            ctx = L.ctx
            K = ctx.ghost['K']
            subs = [e for e in events if e['kind'] == 'call' and e['callee'] == 'runtime.evaluate_expression']
            others = [e for e in events if e['kind'] == 'callable']
            if len(subs) != 1 or others or subs[0].get('outcome') is None or subs[0]['outcome'].kind != 'return':
                return [('C03.each-argument-evaluated-exactly-once', False)]
            a = subs[0]['args']
            args = _sub(K.term(0), 'function', 'args')
            ok = z3.And(ctx.to_term(a[0]) == MH.lget(V.lref(args), L.k), ctx.to_term(a[1]) == K.term(1),
                        ctx.to_term(a[2]) == K.term(2), ctx.to_term(a[3]) == K.term(3))
            # ghost definition: ARGRES(k) is the value the k-th argument evaluated to
            ctx.assume(ARGRES(L.k) == ctx.to_term(subs[0]['outcome'].value))
            return [('C03.each-argument-evaluated-exactly-once', ok)]
        return {('runtime.evaluate_expression', 'comp0'): LoopSpec(inv_args, heap='havoc', keeps_owned=True,
                                                                   body_check=body_args, mk_heap=masked_fresh)}

    callable_model = staticmethod(callable_model)


EVALUATE_EXPRESSION = EvaluateExpression()
EVALUATE_EXPRESSION.callee_contracts = {EVALUATE_EXPRESSION.qual: EVALUATE_EXPRESSION}


# ---------------------------------------------------------------------------------------------
# witness construction for evaluate_expression: the counter-model fixes the top-level node and the results of the
# sub-evaluations; sub-expressions are rebuilt as literals / global variable reads that produce those results
# ---------------------------------------------------------------------------------------------

def _literal_expr(g, val, globals_items, counter):
    if isinstance(val, (int, float)) and not isinstance(val, bool):
        return {'number': {'$float': f'{val}/1'} if isinstance(val, int) else val}
    if isinstance(val, dict) and '$float' in val:
        return {'number': val}
    if isinstance(val, str):
        return {'string': val}
    if val is None:
        return {'variable': 'null'}
    if val is True:
        return {'variable': 'true'}
    if val is False:
        return {'variable': 'false'}
    name = f'w{counter[0]}'
    counter[0] += 1
    globals_items.append([name, val])
    return {'variable': name}


def _mk(g, d):
    """store a python dict/list literal tree as graph objects; returns a $ref"""
    if isinstance(d, dict) and not any(k.startswith('$') for k in d):
        oid = f'D{900000 + len(g.objects)}'
        g.objects[oid] = {'kind': 'dict', 'items': []}
        g.objects[oid]['items'] = [[k, _mk(g, v)] for k, v in d.items()]
        return {'$ref': oid}
    if isinstance(d, list):
        oid = f'L{900000 + len(g.objects)}'
        g.objects[oid] = {'kind': 'list', 'items': []}
        g.objects[oid]['items'] = [_mk(g, v) for v in d]
        return {'$ref': oid}
    return d


def _eval_expression_concretize(self, model, res):
    from pyvc.concretize import Graph
    K = res.ghost['K']
    events = [e for e in res.ghost.get('events', []) if e.get('kind') in ('call', 'callable')]
    g = Graph()

    def mstr(t):
        v = model.eval(t, model_completion=True)
        return v.as_string() if z3.is_string_value(v) else ''
    e = K.term(0)
    r = V.dref(e)
    key = mstr(MH.dkey(r, 0))
    globals_items = []
    counter = [0]
    subs = []
    for ev in events:
        if ev['kind'] == 'call' and ev['callee'] == 'runtime.evaluate_expression':
            out = ev.get('outcome')
            if out is None or out.kind == 'raise':
                subs.append({'function': {'name': 'undefinedFunctionForReplay', 'args': []}})
            else:
                val = g.value(model, ev['heap_after'], K.ctx.to_term(out.value), depth=3)
                subs.append(_literal_expr(g, val, globals_items, counter))
    subs += [{'variable': 'null'}] * 3
    sub = MH.dget(r, z3.StringVal(key))
    if key == 'number':
        expr = {'number': g.value(model, K.heap, sub)}
    elif key == 'string':
        expr = {'string': mstr(V.s(sub))}
    elif key == 'variable':
        expr = {'variable': mstr(V.s(sub))}
    elif key == 'group':
        expr = {'group': subs[0]}
    elif key == 'unary':
        expr = {'unary': {'op': mstr(V.s(MH.dget(V.dref(sub), z3.StringVal('op')))), 'expr': subs[0]}}
    elif key == 'binary':
        expr = {'binary': {'op': mstr(V.s(MH.dget(V.dref(sub), z3.StringVal('op')))), 'left': subs[0], 'right': subs[1]}}
    else:
        return None      # function nodes: no witness construction (reported without a failing input)
    opts = g.value(model, K.heap, K.term(1), depth=2)
    loc = g.value(model, K.heap, K.term(2), depth=2)
    if globals_items:
        # the sub-results that are not literals are served from globals
        if not (isinstance(opts, dict) and '$ref' in opts):
            return None
        od = g.objects[opts['$ref']]
        gl = dict((k, v) for k, v in od['items']).get('globals')
        if not (isinstance(gl, dict) and '$ref' in gl):
            return None
        gitems = [kv for kv in g.objects[gl['$ref']]['items'] if kv[0] not in [n for n, _ in globals_items]]
        g.objects[gl['$ref']]['items'] = gitems + globals_items
        if isinstance(loc, dict) and '$ref' in loc:
            g.objects[loc['$ref']]['items'] = [kv for kv in g.objects[loc['$ref']]['items']
                                               if kv[0] not in [n for n, _ in globals_items]]
    ref = _mk(g, expr)
    builtins = z3.is_true(model.eval(K.args[3].t, model_completion=True)) if isinstance(K.args[3], B) else bool(getattr(K.args[3], 'py', True))
    # model objects must lie below MB and everything else above: renumber
    def newid(oid):
        n = int(oid[1:])
        return oid[0] + str(n - 900000 + 1 if n >= 900000 else n + 2000000)

    def rn(x):
        if isinstance(x, dict):
            if '$ref' in x:
                return {'$ref': newid(x['$ref'])}
            return {k: rn(v) for k, v in x.items()}
        if isinstance(x, list):
            return [rn(v) for v in x]
        return x
    objects = {newid(oid): rn(d) for oid, d in g.objects.items()}
    nsubs = len([ev for ev in events if ev['kind'] == 'call' and ev['callee'] == 'runtime.evaluate_expression'])
    sub_vals = []
    for sx in subs[:nsubs]:
        # the value each literal sub-expression evaluates to
        if 'number' in sx:
            sub_vals.append(sx['number'] if isinstance(sx['number'], dict) else {'$float': f"{sx['number']}/1"})
        elif 'string' in sx:
            sub_vals.append(sx['string'])
        elif 'variable' in sx and sx['variable'] in ('null', 'true', 'false'):
            sub_vals.append({'null': None, 'true': True, 'false': False}[sx['variable']])
        elif 'variable' in sx:
            sub_vals.append(rn(dict(globals_items)[sx['variable']]))
        else:
            sub_vals.append({'$raises': True})
    return {'objects': objects, 'args': [rn(ref), rn(opts), rn(loc), builtins],
            'extra': {'MB': 1000000, 'case': res.ghost.get('case_label'), 'sub_values': sub_vals,
                      'sub_exprs': [rn(_mk(g, sx)) for sx in []]},
            'native_pre': [{'kind': 'expression', 'value': rn(ref)}]}


def _eval_expression_replay_prepare(self, ctx, K, inputs, h0, h1):
    """rebuild the ghost event trace of a replayed witness: its sub-expressions are literals / global reads whose
    values are recorded in the witness, evaluated without effects"""
    from pyvc.concretize import ground_value
    extra = inputs.get('extra', {})
    if 'case' not in extra or any(isinstance(v, dict) and '$raises' in v for v in extra.get('sub_values', [])):
        return
    e = K.term(0)
    case = extra['case']
    ctx.ghost['K'] = K
    ctx.ghost['case_label'] = case
    sub_terms = []
    if case == 'group':
        sub_terms = [_sub(e, 'group')]
    elif case == 'unary':
        sub_terms = [_sub(e, 'unary', 'expr')]
    elif case and case.startswith('binary'):
        sub_terms = [_sub(e, 'binary', 'left'), _sub(e, 'binary', 'right')]
    subst = self.ground_subst(inputs, h0)
    events = []
    for t, v in zip(sub_terms, extra.get('sub_values', [])):
        t = z3.simplify(z3.substitute(t, *subst))
        events.append({'kind': 'call', 'callee': 'runtime.evaluate_expression',
                       'args': [S(t), K.args[1], K.args[2], K.args[3]], 'heap_before': h0, 'heap_after': h0,
                       'outcome': Outcome('return', value=S(ground_value(v)))})
    ctx.ghost['events'] = events


EvaluateExpression.replay_prepare = _eval_expression_replay_prepare


EvaluateExpression.concretize = _eval_expression_concretize


# ---------------------------------------------------------------------------------------------
# C03/C04: the one-step specification of expression evaluation, checked against the ghost event trace of each path
# (sub-evaluations are opaque: their results are the event outcomes). Written from the property statement.
# ---------------------------------------------------------------------------------------------
from pyvc.models_ops import POW, FLOAT_MAX_INT, DATE_MIN_US, DATE_MAX_US      # noqa: E402
from pyvc.models_date import ROUND_HALF_EVEN                                   # noqa: E402
from .value_c import VALUE_STRING                                              # noqa: E402


def _sub(e, *path):
    t = e
    for k in path:
        t = MH.dget(V.dref(t), z3.StringVal(k))
    return t


def num_result(x_is_int, ival, rval):
    return z3.If(x_is_int, VInt(ival), VFloat(rval))


def in_float_range(v):
    return z3.Implies(is_int(v), z3.And(V.i(v) < FLOAT_MAX_INT, V.i(v) > -FLOAT_MAX_INT))


def ms_to_us(x):
    t = x * 1000
    return z3.If(z3.IsInt(t), z3.ToInt(t), ROUND_HALF_EVEN(t))


def date_plus(d, n):
    us = ms_to_us(sp_.num(n))
    lim = z3.IntVal(1000000000 * 86400 * 10 ** 6)
    new = sp_.norm_us(d) + us
    bad = z3.Or(us >= lim, us <= -lim, new < DATE_MIN_US, new > DATE_MAX_US)
    return z3.If(bad, VNone, VDate(z3.IntVal(1), new))


def round0(x):
    """value_round_number(x, 0): half away from zero"""
    from pyvc.core import trunc
    return z3.ToReal(trunc(x + z3.If(x >= 0, z3.RealVal('1/2'), z3.RealVal('-1/2'))))


def binop_spec(op, H, lv, rv):
    """(expected value, or list of admissible values) of `lv op rv` evaluated in heap H; None entries mean null"""
    h = H
    Ht = H.term()
    both = z3.And(sp_.is_number(lv), sp_.is_number(rv))
    bothint = z3.And(is_int(lv), is_int(rv))
    x, y = sp_.num(lv), sp_.num(rv)
    if op == '+':
        return [z3.If(both, num_result(bothint, V.i(lv) + V.i(rv), x + y),
                z3.If(z3.And(is_str(lv), is_str(rv)), VStr(z3.Concat(V.s(lv), V.s(rv))),
                z3.If(is_str(lv), VStr(z3.Concat(V.s(lv), VALUE_STRING(Ht, rv))),
                z3.If(is_str(rv), VStr(z3.Concat(VALUE_STRING(Ht, lv), V.s(rv))),
                z3.If(z3.And(is_date(lv), sp_.is_number(rv)), date_plus(lv, rv),
                z3.If(z3.And(sp_.is_number(lv), is_date(rv)), date_plus(rv, lv), VNone))))))]
    if op == '-':
        diff = z3.ToReal(sp_.norm_us(lv) - sp_.norm_us(rv)) / 1000000 * 1000
        return [z3.If(both, num_result(bothint, V.i(lv) - V.i(rv), x - y),
                z3.If(z3.And(is_date(lv), is_date(rv)), VFloat(round0(diff)), VNone))]
    if op == '*':
        return [z3.If(both, num_result(bothint, V.i(lv) * V.i(rv), x * y), VNone)]
    if op == '/':
        return [z3.If(z3.And(both, y != 0), VFloat(x / y), VNone),
                z3.If(z3.And(both, bothint, z3.Or(V.i(lv) >= FLOAT_MAX_INT, V.i(lv) <= -FLOAT_MAX_INT)), VNone, VOTHER_NEVER)]
    if op == '%':
        fl = z3.ToReal(z3.ToInt(x / y))
        return [z3.If(z3.And(both, y != 0), z3.If(bothint, VInt(V.i(lv) - z3.ToInt(x / y) * V.i(rv)), VFloat(x - fl * y)), VNone)]
    if op == '**':
        undefined = z3.Or(z3.And(x == 0, y < 0), z3.And(x < 0, z3.Not(z3.IsInt(y))))
        val = z3.If(z3.And(bothint, V.i(rv) >= 0), VInt(z3.ToInt(POW(x, y))), VFloat(POW(x, y)))
        from pyvc.models_ops import DBL_MAX_R
        overflow = z3.And(z3.Not(z3.And(bothint, V.i(rv) >= 0)), z3.Or(POW(x, y) > DBL_MAX_R, POW(x, y) < -DBL_MAX_R))
        return [z3.If(z3.And(both, z3.Not(undefined), z3.Not(overflow)), val, VNone)]
    if op in ('==', '!=', '<=', '<', '>=', '>'):
        c = sp_.CMP(Ht, lv, rv)
        rel = {'==': c == 0, '!=': c != 0, '<=': c <= 0, '<': c < 0, '>=': c >= 0, '>': c > 0}[op]
        return [VBool(rel)]
    raise KeyError(op)


VOTHER_NEVER = z3.Const('NEVER_A_RESULT', V)     # a value no execution produces (placeholder for "no alternative")


def eval_step_spec(contract, K, out):
    """obligations of C03/C04 for the path that just ended (verification mode only)"""
    ctx = K.ctx
    case = ctx.ghost.get('case_label')
    if case is None or out.kind != 'return':
        return []
    events = ctx.ghost.get('events', [])
    subs = [e for e in events if e['kind'] == 'call' and e['callee'] == 'runtime.evaluate_expression']
    calls = [e for e in events if e['kind'] == 'callable']
    if any(e.get('outcome') is None or e['outcome'].kind != 'return' for e in subs):
        return []
    e = K.term(0)
    res = ctx.to_term(out.value)
    obs = []

    def sub_ok(ev, expr_term):
        a = ev['args']
        return z3.And(ctx.to_term(a[0]) == expr_term, ctx.to_term(a[1]) == K.term(1), ctx.to_term(a[2]) == K.term(2),
                      ctx.to_term(a[3]) == K.term(3))

    def r(ev):
        return ctx.to_term(ev['outcome'].value)

    def veq(a, b):
        return sp_.veq(a, b)

    if case in ('number', 'string'):
        obs.append(('C03.literal', z3.And(len(subs) == 0, len(calls) == 0, veq(res, _sub(e, case)))))
    elif case == 'variable':
        name = V.s(_sub(e, 'variable'))
        h = K.heap
        o, l = K.term(1), K.term(2)
        g = h.dget(V.dref(o), z3.StringVal('globals'))
        has_g = z3.And(is_dict(o), h.dhas(V.dref(o), z3.StringVal('globals')), is_dict(g))
        exp = z3.If(name == 'null', VNone, z3.If(name == 'false', VBool(False), z3.If(name == 'true', VBool(True),
              z3.If(z3.And(is_dict(l), h.dhas(V.dref(l), name)), h.dget(V.dref(l), name),
              z3.If(z3.And(has_g, h.dhas(V.dref(g), name)), h.dget(V.dref(g), name), VNone)))))
        obs.append(('C04.variable-lookup-locals-then-globals', z3.And(len(subs) == 0, len(calls) == 0, res == exp)))
    elif case == 'group':
        obs.append(('C03.group', z3.And(len(subs) == 1, sub_ok(subs[0], _sub(e, 'group')), res == r(subs[0])))
                   if len(subs) == 1 else ('C03.group', False))
    elif case == 'unary':
        if len(subs) != 1:
            return [('C03.unary-evaluates-operand-once', False)]
        v = r(subs[0])
        H1 = subs[0]['heap_after']
        op = V.s(_sub(e, 'unary', 'op'))
        neg = z3.If(is_int(v), VInt(-V.i(v)), z3.If(is_float(v), VFloat(-V.r(v)), VNone))
        exp = z3.If(op == '!', VBool(z3.Not(sp_.truthy(H1, v))), neg)
        obs.append(('C03.unary', z3.And(sub_ok(subs[0], _sub(e, 'unary', 'expr')), veq(res, exp))))
    elif case.startswith('binary'):
        op = case[len('binary'):]
        left, right = _sub(e, 'binary', 'left'), _sub(e, 'binary', 'right')
        if len(subs) == 0 or len(subs) > 2:
            return [('C03.binary-operands-evaluated-once-left-to-right', False)]
        lv = r(subs[0])
        H1 = subs[0]['heap_after']
        order = [sub_ok(subs[0], left)]
        if len(subs) == 2:
            order.append(sub_ok(subs[1], right))
            # nothing happens between the two sub-evaluations
            order.append(subs[1]['heap_before'].term() == H1.term())
        if op in ('&&', '||'):
            t = sp_.truthy(H1, lv)
            decided = z3.Not(t) if op == '&&' else t
            if len(subs) == 1:
                obs.append(('C03.short-circuit', z3.And(*order, decided, res == lv)))
            else:
                obs.append(('C03.short-circuit', z3.And(*order, z3.Not(decided), res == r(subs[1]))))
        else:
            if len(subs) != 2:
                return [('C03.binary-operands-evaluated-once-left-to-right', False)]
            rv = r(subs[1])
            H2 = subs[1]['heap_after']
            alts = binop_spec(op, H2, lv, rv)
            guard = z3.And(in_float_range(lv), in_float_range(rv))
            obs.append(('C03.binary-operands-evaluated-once-left-to-right', z3.And(*order)))
            tag = 'C03+C11' if op in ('==', '!=', '<=', '<', '>=', '>') else 'C03+C12'
            obs.append((f'{tag}.operator-semantics', z3.Implies(guard, z3.Or([veq(res, a) for a in alts]))))
            obs.append(('C03.no-host-calls', len(calls) == 0))
    elif case == 'function-if':
        args = _sub(e, 'function', 'args')
        f = _sub(e, 'function')
        has_args = MH.dhas(V.dref(f), z3.StringVal('args'))
        n = z3.If(has_args, MH.llen(V.lref(args)), 0)

        def arg(i):
            return MH.lget(V.lref(args), i)
        if len(subs) == 0:
            obs.append(('C03.if-evaluates-only-the-selected-branch', z3.And(n == 0, res == VNone)))
        else:
            v = r(subs[0])
            t = sp_.truthy(subs[0]['heap_after'], v)
            first = z3.And(n >= 1, sub_ok(subs[0], arg(0)))
            if len(subs) == 1:
                # the selected branch is absent
                obs.append(('C03.if-evaluates-only-the-selected-branch',
                            z3.And(first, z3.If(t, n < 2, n < 3), res == VNone)))
            elif len(subs) == 2:
                sel = z3.If(t, arg(1), arg(2))
                obs.append(('C03.if-evaluates-only-the-selected-branch',
                            z3.And(first, z3.If(t, n >= 2, n >= 3), sub_ok(subs[1], sel), res == r(subs[1]),
                                   subs[1]['heap_before'].term() == subs[0]['heap_after'].term())))
            else:
                obs.append(('C03.if-evaluates-only-the-selected-branch', False))
        obs.append(('C03.no-host-calls', len(calls) == 0))
    elif case == 'function-call':
        f = _sub(e, 'function')
        name = V.s(_sub(e, 'function', 'name'))
        has_args = MH.dhas(V.dref(f), z3.StringVal('args'))
        args = _sub(e, 'function', 'args')
        done = [ev for ev in events if ev['kind'] == 'loop-done']
        fcalls = [ev for ev in calls if 'logFn' not in ev['src'] and 'log_fn' not in ev['src']]
        logs = [ev for ev in calls if ev not in fcalls]
        if len(fcalls) != 1 or subs:
            # a return path performs exactly one call of the function value (argument evaluation happens inside the
            # argument loop, whose iterations are separate paths)
            return [('C04.function-called-exactly-once', False)]
        call = fcalls[0]
        H1 = call['heap_before']
        o, l = K.term(1), K.term(2)
        # the globals object is read once, on entry
        g = K.heap.dget(V.dref(o), z3.StringVal('globals'))
        has_g = z3.And(is_dict(o), K.heap.dhas(V.dref(o), z3.StringVal('globals')), is_dict(g))
        expected_fn = z3.If(z3.And(is_dict(l), H1.dhas(V.dref(l), name)), H1.dget(V.dref(l), name),
                      z3.If(z3.And(has_g, H1.dhas(V.dref(g), name)), H1.dget(V.dref(g), name),
                      z3.If(z3.And(K.args[3].t if isinstance(K.args[3], B) else z3.BoolVal(bool(K.args[3].py)), EXPRFN_HAS(name)),
                            EXPRFN(name), VNone)))
        fn_term = ctx.to_term(call['fn'])
        a0, a1 = call['arg_terms'][0], call['arg_terms'][1]
        obs.append(('C04.lookup-locals-then-globals-then-builtins', fn_term == expected_fn))
        i = z3.Int('i!fa')
        if done:
            n = MH.llen(V.lref(args))
            arg_ok = z3.And(has_args, is_list(a0), H1.llen(V.lref(a0)) == n,
                            z3.ForAll([i], z3.Implies(z3.And(i >= 0, i < n), H1.lget(V.lref(a0), i) == ARGRES(i))))
        else:
            arg_ok = z3.Or(z3.And(z3.Not(has_args), a0 == VNone),
                           z3.And(has_args, is_list(a0), MH.llen(V.lref(args)) == H1.llen(V.lref(a0))))
        obs.append(('C03.arguments-passed-in-order-with-the-callers-options', z3.And(arg_ok, a1 == o)))
        oc = call['outcome']
        H2 = call['heap_after']
        if oc.kind == 'return':
            obs.append(('C03.call-result', z3.And(res == ctx.to_term(oc.value), len(logs) == 0)))
        else:
            exc = oc.exc
            isva = K.ip.exc_isinstance(exc, 'ValueArgsError')
            isva = z3.BoolVal(isva) if isinstance(isva, bool) else isva
            rv = exc.f['fields'].get('return_value')
            rvt = ctx.to_term(rv) if rv is not None else VNone
            obs.append(('C05.failed-call-yields-null-or-failure-value', res == z3.If(isva, rvt, VNone)))
            dbg = H2.dget(V.dref(o), z3.StringVal('debug'))
            want_log = z3.And(is_dict(o), H2.dhas(V.dref(o), z3.StringVal('logFn')),
                              H2.dhas(V.dref(o), z3.StringVal('debug')), sp_.py_truthy(H2, dbg))
            obs.append(('C05.failure-logged-iff-debug', want_log if len(logs) == 1 else z3.And(len(logs) == 0, z3.Not(want_log))))
    return obs


# ---------------------------------------------------------------------------------------------
# statements (model.py schema), _execute_script_helper, _script_function, execute_script
# ---------------------------------------------------------------------------------------------
WFSTMTS = ufun('WFSTMTS', V, Bool)
WFSTMT = ufun('WFSTMT', V, Bool)
FIRST = ufun('FIRST_LABEL', V, Str, Int)     # first index of a label statement with that name in a list, or -1
STMT_KEYS = ['expr', 'jump', 'return', 'label', 'function', 'include']


def mget(d, k):
    return MH.dget(V.dref(d), z3.StringVal(k))


def mhas(d, k):
    return MH.dhas(V.dref(d), z3.StringVal(k))


def wfstmts_def(lst):
    i = z3.Int('i!wfs')
    r = V.lref(lst)
    return z3.And(is_list(lst), in_model(r), MH.llen(r) >= 0,
                  z3.ForAll([i], z3.Implies(z3.And(i >= 0, i < MH.llen(r)), WFSTMT(MH.lget(r, i)))))


def wfstmt_def(st):
    r = V.dref(st)
    key = MH.dkey(r, 0)
    ex, jp, rt, fn, inc = (mget(st, k) for k in ('expr', 'jump', 'return', 'function', 'include'))
    i = z3.Int('i!wfst')
    fargs = mget(fn, 'args')
    incs = mget(inc, 'includes')
    one = MH.lget(V.lref(incs), i)
    return z3.And(
        model_dict(st), single_key(r, key), one_of(key, STMT_KEYS),
        z3.Implies(key == 'expr', z3.And(model_dict(ex), mhas(ex, 'expr'), WFEXPR(mget(ex, 'expr')),
                                         z3.Implies(mhas(ex, 'name'), is_str(mget(ex, 'name'))))),
        z3.Implies(key == 'jump', z3.And(model_dict(jp), mhas(jp, 'label'), is_str(mget(jp, 'label')),
                                         z3.Implies(mhas(jp, 'expr'), WFEXPR(mget(jp, 'expr'))))),
        z3.Implies(key == 'return', z3.And(model_dict(rt), z3.Implies(mhas(rt, 'expr'), WFEXPR(mget(rt, 'expr'))))),
        z3.Implies(key == 'label', is_str(mget(st, 'label'))),
        z3.Implies(key == 'function', z3.And(
            model_dict(fn), mhas(fn, 'name'), is_str(mget(fn, 'name')), mhas(fn, 'statements'),
            WFSTMTS(mget(fn, 'statements')),
            z3.Implies(mhas(fn, 'lastArgArray'), is_bool(mget(fn, 'lastArgArray'))),
            z3.Implies(mhas(fn, 'args'), z3.And(
                is_list(fargs), in_model(V.lref(fargs)), MH.llen(V.lref(fargs)) >= 1,
                z3.ForAll([i], z3.Implies(z3.And(i >= 0, i < MH.llen(V.lref(fargs))), is_str(MH.lget(V.lref(fargs), i)))))))),
        z3.Implies(key == 'include', z3.And(
            model_dict(inc), mhas(inc, 'includes'), is_list(incs), in_model(V.lref(incs)), MH.llen(V.lref(incs)) >= 1,
            z3.ForAll([i], z3.Implies(z3.And(i >= 0, i < MH.llen(V.lref(incs))), z3.And(
                model_dict(one), MH.dhas(V.dref(one), z3.StringVal('url')),
                is_str(MH.dget(V.dref(one), z3.StringVal('url'))),
                z3.Implies(MH.dhas(V.dref(one), z3.StringVal('system')),
                           is_bool(MH.dget(V.dref(one), z3.StringVal('system'))))))))))


def wf_run_options(h, o):
    """options of a running script: an unfrozen dict with a globals dict and an integer statement counter; a
    maxStatements entry, if present, is a number (host configuration)"""
    r = V.dref(o)
    g = h.dget(r, z3.StringVal('globals'))
    cnt = h.dget(r, z3.StringVal('statementCount'))
    mx = h.dget(r, z3.StringVal('maxStatements'))
    return z3.And(is_dict(o), r >= MB, r < h.alloc,
                  h.dhas(r, z3.StringVal('globals')), is_dict(g), V.dref(g) >= MB, V.dref(g) < h.alloc, V.dref(g) != r,
                  h.dhas(r, z3.StringVal('statementCount')), is_int(cnt),
                  z3.Implies(h.dhas(r, z3.StringVal('maxStatements')), sp_.is_number(mx)))


def count_of(h, o):
    return V.i(h.dget(V.dref(o), z3.StringVal('statementCount')))


def max_of(h, o):
    mx = h.dget(V.dref(o), z3.StringVal('maxStatements'))
    return z3.If(h.dhas(V.dref(o), z3.StringVal('maxStatements')), sp_.num(mx), z3.RealVal(10 ** 9))


class ParseScript(FnContract):
    """parse_script as used by the include arm: returns a schema-valid model in fresh memory or raises
    BareScriptParserError (C06/C07 are its own properties)."""
    qual = 'parser.parse_script'
    frame = 'havoc'

    def havoc_heap(self, ip, h0):
        fresh = ip.ctx.fresh_heap('parse')
        ip.ctx.assume(fresh.alloc >= h0.alloc)
        return ip.ctx.keep_owned(h0, mask(fresh))

    def may_raise(self, K):
        return [('BareScriptParserError', None)]

    def post(self, K, out):
        if out.kind == 'raise':
            return []
        v = K.ctx.to_term(out.value)
        return [('fresh-script', z3.And(is_dict(v), V.dref(v) >= K.heap.alloc, V.dref(v) < K.heap_after.alloc))]


class LintScript(FnContract):
    qual = 'model.lint_script'
    frame = 'havoc'

    def havoc_heap(self, ip, h0):
        fresh = ip.ctx.fresh_heap('lint')
        ip.ctx.assume(fresh.alloc >= h0.alloc)
        # lint is pure (C18): only fresh objects appear
        r = z3.Int('r!lint')

        def m(old, new):
            return z3.Lambda([r], z3.If(r < h0.alloc, z3.Select(old, r), z3.Select(new, r)))
        return Heap(m(h0.LEN, fresh.LEN), m(h0.ELS, fresh.ELS), m(h0.HAS, fresh.HAS), m(h0.VAL, fresh.VAL),
                    m(h0.NK, fresh.NK), m(h0.KEY, fresh.KEY), fresh.alloc)

    def post(self, K, out):
        if out.kind == 'raise':
            return []
        v = K.ctx.to_term(out.value)
        i = z3.Int('i!lw')
        h1 = K.heap_after
        return [('fresh-list-of-strings', z3.And(is_list(v), V.lref(v) >= K.heap.alloc, V.lref(v) < h1.alloc,
                                                 h1.llen(V.lref(v)) >= 0,
                                                 z3.ForAll([i], is_str(h1.lget(V.lref(v), i)))))]
PARSED_STMTS = ufun('PARSED_STMTS', V, Bool)     # a statement list produced by parse_script (valid by C07)


def _parse_post(self, K, out):
    if out.kind == 'raise':
        return []
    v = K.ctx.to_term(out.value)
    h1 = K.heap_after
    st = h1.dget(V.dref(v), z3.StringVal('statements'))
    return [('fresh-script', z3.And(is_dict(v), V.dref(v) >= K.heap.alloc, V.dref(v) >= MB, V.dref(v) < h1.alloc,
                                    h1.dhas(V.dref(v), z3.StringVal('statements')), PARSED_STMTS(st), wf_value(h1, st)))]


def _parse_make_exception(self, ip, cls):
    ctx = ip.ctx
    exc = make_exc(cls, [])
    ln = ctx.fresh('pe_line_number', V)
    ctx.assume(z3.Or(is_none(ln), is_int(ln)))
    exc.f['fields'] = {'error': T(ctx.fresh('pe_error', Str)), 'line': T(ctx.fresh('pe_line', Str)),
                       'column_number': I(ctx.fresh('pe_col', Int)), 'line_number': S(ln)}
    return exc


ParseScript.post = _parse_post
ParseScript.make_exception = _parse_make_exception
PARSE_SCRIPT = ParseScript()
LINT_SCRIPT = LintScript()


def host_callable_model(ip, callee, args, kwargs, frame, node):
    return callable_model(ip, callee, args, kwargs, frame, node)


class ExecuteScriptHelper(FnContract):
    qual = 'runtime._execute_script_helper'
    frame = 'havoc'
    inline = ('value.value_boolean',)

    def params(self, ip):
        ctx = ip.ctx
        base = ctx.heap
        ctx.assume(z3.And(MB >= 0, MB <= base.alloc))
        ctx.heap = mask(base)
        stmts = ctx.fresh('statements', V)
        options = ctx.fresh('options', V)
        locals_ = ctx.fresh('locals_', V)
        ctx.ghost['options_terms'] = [options]
        return [S(stmts), S(options), S(locals_)]

    def pre(self, K):
        h = K.heap
        return [('wf-statements', z3.Or(WFSTMTS(K.term(0)), PARSED_STMTS(K.term(0)))),
                ('wf-options', wf_run_options(h, K.term(1))),
                ('wf-locals', wf_locals(h, K.term(2))),
                ('locals-is-a-separate-object',
                 z3.Or(is_none(K.term(2)), z3.And(V.dref(K.term(2)) != V.dref(K.term(1)),
                                                  V.dref(K.term(2)) != V.dref(h.dget(V.dref(K.term(1)), z3.StringVal('globals')))))),
                ('model-frozen', frozen(h))]

    def axioms(self, K):
        s = K.term(0)
        if K.ctx.ghost.get('K') is K:
            # verification is for a model in the frozen region; parsed (included) scripts are the same contract
            # instantiated with their own region (meta-argument, DESIGN.md C17)
            return [('verified-for-frozen-models', WFSTMTS(s)), ('WFSTMTS-def', z3.Implies(WFSTMTS(s), wfstmts_def(s)))]
        return []

    def havoc_heap(self, ip, h0):
        fresh = ip.ctx.fresh_heap('run')
        ip.ctx.assume(fresh.alloc >= h0.alloc)
        return ip.ctx.keep_owned(h0, mask(fresh))

    def may_raise(self, K):
        return [('BareScriptRuntimeError', None), ('BareScriptParserError', None)]

    def post(self, K, out):
        h0, h1 = K.heap, K.heap_after
        o = K.term(1)
        obs = []
        if out.kind == 'raise':
            ip = K.ip
            ok = [ip.exc_isinstance(out.exc, 'BareScriptRuntimeError'), ip.exc_isinstance(out.exc, 'BareScriptParserError')]
            if any(x is True for x in ok):
                contained = True
            else:
                parts = [x for x in ok if x is not False]
                contained = z3.Or(parts) if parts else False
            obs.append(('C05.only-documented-exceptions-escape', contained))
        else:
            obs.append(('result-wf', wf_value(h1, K.ctx.to_term(out.value))))
        obs.append(('C08.model-unmodified', frozen(h1)))
        obs.append(('options-still-wf', z3.And(wf_run_options(h1, o), wf_locals(h1, K.term(2)))))
        obs.append(('C09.count-never-decreases', count_of(h1, o) >= count_of(h0, o)))
        if K.ctx.ghost.get('K') is K and out.kind == 'return':
            obs += self.return_step_spec(K, out)
        if K.ctx.ghost.get('K') is K and out.kind == 'raise':
            obs += self.unknown_label_spec(K, out)
        return obs

    def unknown_label_spec(self, K, out):
        """C08: the helper's own "Unknown jump label" error is raised only by a taken jump whose label is defined nowhere in
        the statement list (a label at index 0 included)"""
        ctx = K.ctx
        events = ctx.ghost.get('events', [])
        for e in events:
            oc = e.get('outcome')
            if oc is not None and oc.kind == 'raise' and oc.exc is out.exc:
                return []                   # propagated from a callee: that callee's contract speaks about it
        args = out.exc.f.get('args') or []
        if not args:
            return []
        try:
            t = z3.simplify(ctx.to_term(args[0]) if not z3.is_expr(getattr(args[0], 't', None)) else args[0].t)
            if t.sort() == V:
                t = z3.simplify(V.s(t))
        except Exception:      # a message the logic does not represent as text
            return []
        parts = []

        def flat(x):
            if z3.is_app(x) and x.decl().kind() == z3.Z3_OP_SEQ_CONCAT:
                for c in x.children():
                    flat(c)
            else:
                parts.append(x)
        flat(t)
        if not (parts and z3.is_string_value(parts[0]) and parts[0].as_string().startswith('Unknown jump label')):
            return []
        begins = [e for e in events if e.get('kind') == 'loop-body-begin' and e['loop'].endswith('helper.loop0')]
        if not begins or ctx.ghost.get('case_label') != 'stmt-jump':
            return [('C08.unknown-jump-label-is-raised-only-by-a-jump-statement', False)]
        # the label as the message names it (the same heap read the lookup used), else as the model gives it
        label = None
        if len(parts) >= 2:
            x = z3.simplify(parts[1])
            if z3.is_app(x) and x.decl().kind() == z3.Z3_OP_ITE:
                x = z3.simplify(x.arg(1))
            if x.sort() == z3.StringSort():
                label = x
        if label is None:
            st = ctx.to_term(begins[-1]['env']['statement'])
            label = V.s(mget(mget(st, 'jump'), 'label'))
        return [('C08.unknown-jump-label-is-raised-only-when-no-label-of-that-name-exists', FIRST(K.term(0), label) < 0)]

    def return_step_spec(self, K, out):
        """C08: a path that returns does so through a `return` statement (its optional value evaluated once) or by
        running off the end of the list (null)"""
        ctx = K.ctx
        events = ctx.ghost.get('events', [])
        begins = [i for i, e in enumerate(events) if e.get('kind') == 'loop-body-begin' and e['loop'].endswith('helper.loop0')]
        res = ctx.to_term(out.value)
        if not begins:
            return [('C08.running-off-the-end-returns-null', res == VNone)]
        if ctx.ghost.get('case_label') != 'stmt-return':
            return [('C08.only-return-statements-return', False)]
        begin = events[begins[-1]]
        after = events[begins[-1] + 1:]
        subs = [e for e in after if e.get('kind') == 'call' and e['callee'] == 'runtime.evaluate_expression']
        stmts = K.term(0)
        st = MH.lget(V.lref(stmts), V.i(ctx.to_term(begin['env']['ix_statement'])))
        rt = mget(st, 'return')
        if not subs:
            return [('C08.return-without-value-returns-null', z3.And(z3.Not(mhas(rt, 'expr')), res == VNone))]
        if len(subs) != 1 or subs[0]['outcome'].kind != 'return':
            return [('C08.return-value-evaluated-once', False)]
        a = subs[0]['args']
        return [('C08.return-value-evaluated-once',
                 z3.And(mhas(rt, 'expr'), ctx.to_term(a[0]) == mget(rt, 'expr'), ctx.to_term(a[1]) == K.term(1),
                        ctx.to_term(a[2]) == K.term(2), res == ctx.to_term(subs[0]['outcome'].value)))]

    callable_model = staticmethod(host_callable_model)

    # the include arm is NOT proved: its symbolic run (242 paths, 1693 obligations, ~20 min on 12 cores) leaves 488 obligations
    # undecided (quantified heap frames across the nested helper call time out in z3 and cvc5); it is kept out of both
    # registered tiers and a bounded native stand-in decides the include clauses (props/C17.include_bounded)
    slow_cases = ('stmt-include',)
    slow_reason = ('the include arm: 1199 of 1693 obligations discharge, the rest time out; a bounded native include tree '
                   'stands in (labelled bounded)')

    def cases(self):
        """one verification job per statement kind (the split is made at the head of the statement loop)"""
        return [(f'stmt-{k}', lambda K: []) for k in STMT_KEYS]


EXECUTE_SCRIPT_HELPER = ExecuteScriptHelper()


# -- url_file_relative by contract (its own resolution rules are verified in C17) -----------------
URLREL = ufun('URLREL', Str, Str, Str)


class UrlFileRelative(FnContract):
    qual = 'options.url_file_relative'
    frame = 'pure'
    result = 'str'

    def pre(self, K):
        return [('strings', z3.And(is_str(K.term(0)), is_str(K.term(1))))]

    def post(self, K, out):
        if out.kind != 'return':
            return []
        return [('URLREL', out.value.t == URLREL(V.s(K.term(0)), V.s(K.term(1))))]


URL_FILE_RELATIVE = UrlFileRelative()


def _helper_loop_specs(self):
    Q = 'runtime._execute_script_helper'

    def common(L):
        h = L.heap
        K = L.ctx.ghost['K']
        o = K.term(1)
        return [('model-frozen', frozen(h)),
                ('options-wf', z3.And(wf_run_options(h, o), wf_locals(h, K.term(2)))),
                ('C09.count-never-decreases', count_of(h, o) >= count_of(K.heap, o))]

    def cache_ok(L):
        h = L.heap
        K = L.ctx.ghost['K']
        li = L.term('label_indexes')
        stmts = K.term(0)
        n = MH.llen(V.lref(stmts))
        k = z3.String('k!cache')
        r = V.dref(li)
        f = FIRST(stmts, k)
        return z3.And(z3.Or(is_none(li), z3.And(is_dict(li), r >= MB, r >= K.heap.alloc, r < h.alloc)),
                      z3.Implies(is_dict(li),
                                 z3.ForAll([k], z3.Implies(h.dhas(r, k), z3.And(h.dget(r, k) == VInt(f), f >= 0, f < n)))))

    def inv_main(L):
        K = L.ctx.ghost['K']
        n = MH.llen(V.lref(K.term(0)))
        t = L.term('ix_statement')
        return [('pc-in-range', z3.And(is_int(t), V.i(t) >= 0, V.i(t) <= n)),
                ('C08.label-cache-holds-first-matches', cache_ok(L))] + common(L)

    def lem_main(L):
        K = L.ctx.ghost['K']
        stmts = K.term(0)
        ix = L.int('ix_statement')
        st = MH.lget(V.lref(stmts), ix)
        # instance of the label-cache invariant at the label of the statement about to run
        li = L.term('label_indexes')
        jl = V.s(mget(mget(st, 'jump'), 'label'))
        h = L.heap
        r = V.dref(li)
        f = FIRST(stmts, jl)
        cache_inst = z3.Implies(z3.And(is_dict(li), h.dhas(r, jl)),
                                z3.And(h.dget(r, jl) == VInt(f), f >= 0, f < MH.llen(V.lref(stmts))))
        return [z3.Implies(z3.And(ix >= 0, ix < MH.llen(V.lref(stmts))), z3.And(WFSTMT(st), wfstmt_def(st))), cache_inst]

    def inv_inc(L):
        return common(L) + [('C08.label-cache-holds-first-matches', cache_ok(L))]

    def stmt_cases(L, label):
        if not label or not label.startswith('stmt-'):
            return None
        K = L.ctx.ghost['K']
        t = L.term('ix_statement')
        st = MH.lget(V.lref(K.term(0)), V.i(t))
        key = MH.dkey(V.dref(st), 0)
        return key == z3.StringVal(label[5:]), one_of(key, STMT_KEYS)

    def owned_cache(L):
        li = L.term('label_indexes')
        return [('d', z3.simplify(V.dref(li)), is_dict(li))]

    return {(Q, 0): LoopSpec(inv_main, heap='havoc', lemmas=lem_main, keeps_owned=True, mk_heap=masked_fresh,
                             case_facts=stmt_cases, owned=owned_cache,
                             header='ix_statement < statements_length', body_check=helper_body_check),
            (Q, 1): LoopSpec(inv_inc, heap='havoc', keeps_owned=True, body_check=include_body_check, mk_heap=masked_fresh,
                             owned=owned_cache,
                             header="statement['include']['includes']"),
            (Q, 2): LoopSpec(inv_inc, heap='havoc', keeps_owned=True, header='warnings', mk_heap=masked_fresh,
                             owned=owned_cache)}


def helper_body_check(L, events):
    """C08/C09 obligations of one iteration of the statement loop (ghost events of the iteration)"""
    ctx = L.ctx
    K = ctx.ghost['K']
    o = K.term(1)
    begin = None
    for e in reversed(ctx.ghost['events']):
        if e.get('kind') == 'loop-body-begin' and e['loop'].endswith('_execute_script_helper.loop0'):
            begin = e
            break
    obs = []
    h_begin = begin['heap']
    head = count_of(h_begin, o)
    exceeded = z3.And(max_of(h_begin, o) > 0, z3.ToReal(head + 1) > max_of(h_begin, o))
    first = next((e for e in events if e.get('kind') in ('call', 'callable')), None)
    h_first = first['heap_before'] if first is not None else L.heap
    obs.append(('C09.counter-incremented-once-at-the-head', count_of(h_first, o) == head + 1))
    obs.append(('C09.statement-runs-only-within-the-budget', z3.Not(exceeded)))
    # every nested evaluation/run/call gets the run's own options object (so its statements are counted)
    same = []
    for e in events:
        if e.get('kind') == 'call' and e['callee'] in ('runtime.evaluate_expression', 'runtime._execute_script_helper'):
            oa = ctx.to_term(e['args'][1])
            carried = z3.And(count_of(e['heap_before'], oa) == count_of(e['heap_before'], o),
                             count_of(L.heap, o) >= count_of(e['heap_after'], oa))
            same.append(z3.Or(oa == o, carried))
    obs.append(('C09.nested-runs-are-counted', z3.And(same) if same else z3.BoolVal(True)))
    obs += statement_step_spec(L, events, begin)
    return obs


def statement_step_spec(L, events, begin):
    """C08/C04: the small-step rule of the statement that just ran (continuing iterations; `return` is checked in the
    postcondition)"""
    ctx = L.ctx
    K = ctx.ghost['K']
    case = ctx.ghost.get('case_label') or ''
    if not case.startswith('stmt-') or case == 'stmt-include':
        return []
    kind = case[5:]
    stmts, o, loc = K.term(0), K.term(1), K.term(2)
    ix0 = ctx.to_term(begin['env']['ix_statement'])
    ix1 = L.term('ix_statement')
    st = MH.lget(V.lref(stmts), V.i(ix0))
    g0 = K.heap.dget(V.dref(o), z3.StringVal('globals'))
    subs = [e for e in events if e.get('kind') == 'call' and e['callee'] == 'runtime.evaluate_expression']
    others = [e for e in events if e.get('kind') in ('call', 'callable') and e not in subs]
    bound = K.heap.alloc
    h_end = L.heap
    obs = []

    def sub_ok(ev, expr_term):
        a = ev['args']
        b = a[3]
        return z3.And(ctx.to_term(a[0]) == expr_term, ctx.to_term(a[1]) == o, ctx.to_term(a[2]) == loc,
                      ctx.to_term(b) == VBool(False))

    def next_is(t):
        return z3.And(is_int(ix1), V.i(ix1) == t)
    if others:
        return [('C08.no-other-calls-in-this-statement', False)]
    if kind == 'label':
        return [('C08.label-is-a-no-op', z3.And(len(subs) == 0, next_is(V.i(ix0) + 1),
                                                sp_.frame_same(begin['heap'], h_end, bound, except_dicts=[V.dref(o)])))]
    if kind == 'expr':
        if len(subs) != 1 or subs[0]['outcome'].kind != 'return':
            return [('C08.expression-evaluated-exactly-once', False)]
        ev = subs[0]
        res = ctx.to_term(ev['outcome'].value)
        ex = mget(st, 'expr')
        has_name = mhas(ex, 'name')
        name = V.s(mget(ex, 'name'))
        target = z3.If(is_none(loc), g0, loc)
        h1 = ev['heap_after']
        k = z3.String('k!asg')
        tr = V.dref(target)
        assigned = z3.And(h_end.dhas(tr, name), h_end.dget(tr, name) == res,
                          z3.ForAll([k], z3.Implies(k != name, z3.And(h_end.dhas(tr, k) == h1.dhas(tr, k),
                                                                       z3.Implies(h1.dhas(tr, k), h_end.dget(tr, k) == h1.dget(tr, k))))))
        obs.append(('C08.expression-evaluated-exactly-once', sub_ok(ev, mget(ex, 'expr'))))
        obs.append(('C04+C08.assignment-writes-locals-inside-functions-else-globals',
                    z3.If(has_name, z3.And(assigned, sp_.frame_same(h1, h_end, bound, except_dicts=[tr])),
                          sp_.frame_same(h1, h_end, bound))))
        obs.append(('C08.next-statement', next_is(V.i(ix0) + 1)))
        return obs
    if kind == 'jump':
        jp = mget(st, 'jump')
        label = V.s(mget(jp, 'label'))
        has_expr = mhas(jp, 'expr')
        first = FIRST(stmts, label)
        if len(subs) > 1:
            return [('C08.jump-condition-evaluated-at-most-once', False)]
        if subs:
            ev = subs[0]
            if ev['outcome'].kind != 'return':
                return []
            res = ctx.to_term(ev['outcome'].value)
            taken = sp_.truthy(ev['heap_after'], res)
            obs.append(('C08.jump-condition-evaluated-at-most-once', z3.And(has_expr, sub_ok(ev, mget(jp, 'expr')))))
            h1 = ev['heap_after']
        else:
            taken = z3.BoolVal(True)
            obs.append(('C08.jump-condition-evaluated-at-most-once', z3.Not(has_expr)))
            h1 = begin['heap']
        obs.append(('C08.jump-continues-after-the-first-matching-label',
                    z3.If(taken, z3.And(first >= 0, next_is(first + 1)), next_is(V.i(ix0) + 1))))
        obs.append(('C08.jump-has-no-other-effect', sp_.frame_same(h1, h_end, bound, except_dicts=[V.dref(o)])))
        return obs
    if kind == 'function':
        fn = mget(st, 'function')
        name = V.s(mget(fn, 'name'))
        tr = V.dref(g0)
        h0 = begin['heap']
        k = z3.String('k!fn')
        return [('C04+C08.function-statement-binds-a-global-function',
                 z3.And(len(subs) == 0, h_end.dhas(tr, name), is_func(h_end.dget(tr, name)),
                        z3.ForAll([k], z3.Implies(k != name, z3.And(h_end.dhas(tr, k) == h0.dhas(tr, k),
                                                                     z3.Implies(h0.dhas(tr, k), h_end.dget(tr, k) == h0.dget(tr, k))))),
                        sp_.frame_same(h0, h_end, bound, except_dicts=[tr, V.dref(o)]))),
                ('C08.next-statement', next_is(V.i(ix0) + 1))]
    return obs


def include_body_check(L, events):
    """C17 obligations of one include: resolve, fetch once, parse, run nested in global scope with a re-based urlFn"""
    ctx = L.ctx
    K = ctx.ghost['K']
    o = K.term(1)
    obs = []
    runs = [e for e in events if e.get('kind') == 'call' and e['callee'] == 'runtime._execute_script_helper']
    parses = [e for e in events if e.get('kind') == 'call' and e['callee'] == 'parser.parse_script']
    fetches = [e for e in events if e.get('kind') == 'callable' and 'fetch_fn' in e['src']]
    urlcalls = [e for e in events if e.get('kind') == 'callable' and 'url_fn' in e['src']]
    obs.append(('C17.fetched-parsed-and-run-exactly-once', z3.BoolVal(len(runs) == 1 and len(parses) == 1 and len(fetches) == 1
                                                                      and len(urlcalls) <= 1)))
    if len(runs) == 1 and len(fetches) == 1:
        run = runs[0]
        hb = run['heap_before']
        io = ctx.to_term(run['args'][1])
        inc = L.term('include')
        url0 = V.s(MH.dget(V.dref(inc), z3.StringVal('url')))
        h_head = next(e for e in reversed(ctx.ghost['events']) if e.get('kind') == 'loop-body-begin'
                      and e['loop'].endswith('loop1'))['heap']
        prefix = h_head.dget(V.dref(o), z3.StringVal('systemPrefix'))
        is_system = z3.And(MH.dhas(V.dref(inc), z3.StringVal('system')),
                           sp_.py_truthy(MH, MH.dget(V.dref(inc), z3.StringVal('system'))),
                           h_head.dhas(V.dref(o), z3.StringVal('systemPrefix')), z3.Not(is_none(prefix)))
        if urlcalls:
            via_fn = ctx.to_term(urlcalls[0]['outcome'].value) if urlcalls[0]['outcome'].kind == 'return' else VNone
            resolved = via_fn
            obs.append(('C17.urlFn-used-for-plain-includes', z3.And(z3.Not(is_system), urlcalls[0]['arg_terms'][0] == VStr(url0))))
        else:
            resolved = z3.If(is_system, VStr(URLREL(V.s(prefix), url0)), VStr(url0))
            fn = h_head.dget(V.dref(o), z3.StringVal('urlFn'))
            obs.append(('C17.system-includes-resolve-against-the-system-prefix',
                        z3.Or(is_system, z3.Not(h_head.dhas(V.dref(o), z3.StringVal('urlFn'))), is_none(fn))))
        req = fetches[0]['arg_terms'][0]
        hf = fetches[0]['heap_before']
        obs.append(('C17.fetch-receives-the-resolved-location',
                    z3.And(is_dict(req), hf.dhas(V.dref(req), z3.StringVal('url')),
                           hf.dget(V.dref(req), z3.StringVal('url')) == resolved)))
        obs.append(('C17.included-script-runs-in-global-scope', ctx.to_term(run['args'][2]) == VNone))
        obs.append(('C17.nested-run-gets-a-copy-with-rebased-urlFn',
                    z3.And(io != o, is_dict(io), hb.dhas(V.dref(io), z3.StringVal('urlFn')),
                           is_func(hb.dget(V.dref(io), z3.StringVal('urlFn'))),
                           hb.dget(V.dref(io), z3.StringVal('globals')) == hb.dget(V.dref(o), z3.StringVal('globals')))))
        # the includer's own urlFn entry is not written by this arm (only host calls may touch options)
        obs.append(('C17.parse-receives-the-fetched-text',
                    ctx.to_term(parses[0]['args'][0]) == ctx.to_term(fetches[0]['outcome'].value)
                    if fetches[0]['outcome'].kind == 'return' else z3.BoolVal(False)))
    return obs


ExecuteScriptHelper.loop_specs = property(_helper_loop_specs)


def _first_label_hook(ip, gen, p, n, found):
    """ties the first-match idiom of the jump arm to the spec function FIRST (definitional: the least index is
    unique)"""
    frame = gen.f['frame']
    if not frame.qual.endswith('_execute_script_helper'):
        return
    ctx = ip.ctx
    stmts = ctx.to_term(frame.env['statements'])
    label = ctx.to_term(frame.env['jump_label'])
    ctx.assume(z3.If(found, p == FIRST(stmts, V.s(label)), FIRST(stmts, V.s(label)) == -1))


def _first_label_elem_hook(ip, gen, j):
    """the generic element of the statement list is a well-formed statement (elements beyond the length are never
    observed, so constraining them is harmless)"""
    frame = gen.f['frame']
    if not frame.qual.endswith('_execute_script_helper'):
        return
    ctx = ip.ctx
    stmts = ctx.to_term(frame.env['statements'])
    st = MH.lget(V.lref(stmts), j)
    r = V.dref(st)
    key = MH.dkey(r, 0)
    ctx.assume(z3.And(model_dict(st), MH.dnk(r) == 1, MH.dhas(r, key), one_of(key, STMT_KEYS),
                      MH.dhas(r, z3.StringVal('label')) == (key == z3.StringVal('label')),
                      z3.Implies(key == 'label', is_str(MH.dget(r, z3.StringVal('label'))))))


def parser_error_ctor(ip, exc, args, kwargs):
    """BareScriptParserError(error, line, column_number=1, line_number=None, prefix=None) by contract: the attributes
    are the arguments (the message formatting of __init__ is verified on its own, C06)"""
    names = ['error', 'line', 'column_number', 'line_number', 'prefix']
    vals = {'column_number': C(1), 'line_number': C(None), 'prefix': C(None)}
    for n, a in zip(names, args):
        vals[n] = a
    vals.update(kwargs)
    for n in ('error', 'line', 'column_number', 'line_number'):
        exc.f['fields'][n] = vals[n]


ExecuteScriptHelper.hooks = {'first_match': _first_label_hook, 'first_match_elem': _first_label_elem_hook,
                             'class:BareScriptParserError': parser_error_ctor}
EXECUTE_SCRIPT_HELPER.callee_contracts = {
    EVALUATE_EXPRESSION.qual: EVALUATE_EXPRESSION, EXECUTE_SCRIPT_HELPER.qual: EXECUTE_SCRIPT_HELPER,
    PARSE_SCRIPT.qual: PARSE_SCRIPT, LINT_SCRIPT.qual: LINT_SCRIPT, URL_FILE_RELATIVE.qual: URL_FILE_RELATIVE}


# ---------------------------------------------------------------------------------------------
# _script_function (C04: parameter binding) and execute_script (C04: library injection, C09: counter reset)
# ---------------------------------------------------------------------------------------------
LASTPOS = ufun('LASTPOS', V, Str, Int, Int)     # greatest j < k with params[j] == name, or -1


def lastpos_step(fargs, name, k):
    """definition of LASTPOS, unfolded at k"""
    pk = V.s(MH.lget(V.lref(fargs), k))
    return LASTPOS(fargs, name, k + 1) == z3.If(pk == name, k, LASTPOS(fargs, name, k))


def wf_function_def(fn):
    i = z3.Int('i!wff')
    fargs = mget(fn, 'args')
    return z3.And(
        model_dict(fn), mhas(fn, 'name'), is_str(mget(fn, 'name')), mhas(fn, 'statements'), WFSTMTS(mget(fn, 'statements')),
        z3.Implies(mhas(fn, 'lastArgArray'), is_bool(mget(fn, 'lastArgArray'))),
        z3.Implies(mhas(fn, 'args'), z3.And(
            is_list(fargs), in_model(V.lref(fargs)), MH.llen(V.lref(fargs)) >= 1,
            z3.ForAll([i], z3.Implies(z3.And(i >= 0, i < MH.llen(V.lref(fargs))), is_str(MH.lget(V.lref(fargs), i)))))))


def binding_spec(h, fn, args, loc, k, bound):
    """the locals dict `loc` binds the first k parameters of fn positionally to `args` (heap h):
    the last occurrence of a name wins, missing arguments are null, a trailing array parameter collects the rest"""
    fargs = mget(fn, 'args')
    n = MH.llen(V.lref(fargs))
    na = h.llen(V.lref(args))
    last_is_array = z3.And(mhas(fn, 'lastArgArray'), V.b(mget(fn, 'lastArgArray')))
    name = z3.String('nm!bind')
    i = z3.Int('i!bind')
    j = LASTPOS(fargs, name, k)
    v = h.dget(V.dref(loc), name)
    is_rest = z3.And(last_is_array, j == n - 1)
    arr_ok = z3.And(is_list(v), V.lref(v) >= bound, V.lref(v) < h.alloc,
                    h.llen(V.lref(v)) == z3.If(na > j, na - j, 0),
                    z3.ForAll([i], z3.Implies(z3.And(i >= 0, i < na - j), h.lget(V.lref(v), i) == h.lget(V.lref(args), j + i))))
    val_ok = z3.If(is_rest, arr_ok, v == z3.If(j < na, h.lget(V.lref(args), j), VNone))
    return z3.ForAll([name], z3.And(h.dhas(V.dref(loc), name) == (j >= 0), z3.Implies(j >= 0, val_ok)))


class ScriptFunction(FnContract):
    qual = 'runtime._script_function'
    frame = 'havoc'

    def params(self, ip):
        ctx = ip.ctx
        base = ctx.heap
        ctx.assume(z3.And(MB >= 0, MB <= base.alloc))
        ctx.heap = mask(base)
        fn = ctx.fresh('function', V)
        args = ctx.fresh('args', V)
        options = ctx.fresh('options', V)
        ctx.ghost['options_terms'] = [options]
        return [S(fn), S(args), S(options)]

    def pre(self, K):
        h = K.heap
        a = K.term(1)
        return [('wf-function', wf_function_def(K.term(0))),
                ('args-is-a-list', z3.And(is_list(a), V.lref(a) >= MB, V.lref(a) < h.alloc, h.llen(V.lref(a)) >= 0)),
                ('wf-options', wf_run_options(h, K.term(2))),
                ('model-frozen', frozen(h))]

    def axioms(self, K):
        fargs = mget(K.term(0), 'args')
        name = z3.String('nm!lp0')
        return [('LASTPOS-base', z3.ForAll([name], LASTPOS(fargs, name, 0) == -1))]

    def havoc_heap(self, ip, h0):
        fresh = ip.ctx.fresh_heap('sfn')
        ip.ctx.assume(fresh.alloc >= h0.alloc)
        return ip.ctx.keep_owned(h0, mask(fresh))

    def may_raise(self, K):
        return [('BareScriptRuntimeError', None), ('BareScriptParserError', None)]

    def post(self, K, out):
        h0, h1 = K.heap, K.heap_after
        o = K.term(2)
        obs = []
        if out.kind == 'raise':
            ip = K.ip
            ok = [ip.exc_isinstance(out.exc, 'BareScriptRuntimeError'), ip.exc_isinstance(out.exc, 'BareScriptParserError')]
            contained = True if any(x is True for x in ok) else (z3.Or([x for x in ok if x is not False]) if any(x is not False for x in ok) else False)
            obs.append(('C05.only-documented-exceptions-escape', contained))
        else:
            obs.append(('result-wf', wf_value(h1, K.ctx.to_term(out.value))))
        obs.append(('C08.model-unmodified', frozen(h1)))
        obs.append(('options-still-wf', wf_run_options(h1, o)))
        obs.append(('C09.count-never-decreases', count_of(h1, o) >= count_of(h0, o)))
        if K.ctx.ghost.get('K') is K:
            ctx = K.ctx
            runs = [e for e in ctx.ghost.get('events', []) if e.get('kind') == 'call' and e['callee'] == 'runtime._execute_script_helper']
            if len(runs) != 1:
                obs.append(('C04+C09.body-run-exactly-once', False))
            else:
                run = runs[0]
                hb = run['heap_before']
                fn = K.term(0)
                loc = ctx.to_term(run['args'][2])
                fargs = mget(fn, 'args')
                n = z3.If(mhas(fn, 'args'), MH.llen(V.lref(fargs)), 0)
                name = z3.String('nm!nb')
                obs.append(('C04+C09.body-runs-with-fresh-locals-and-the-callers-options',
                            z3.And(ctx.to_term(run['args'][0]) == mget(fn, 'statements'), ctx.to_term(run['args'][1]) == o,
                                   is_dict(loc), V.dref(loc) >= h0.alloc)))
                obs.append(('C04.parameters-bound-positionally',
                            z3.If(mhas(fn, 'args'), binding_spec(hb, fn, K.term(1), loc, n, h0.alloc),
                                  z3.ForAll([name], z3.Not(hb.dhas(V.dref(loc), name))))))
                obs.append(('C04.arguments-and-globals-untouched-by-binding',
                            sp_.frame_same(h0, hb, h0.alloc)))
        return obs

    @property
    def loop_specs(self):
        def inv(L):
            K = L.ctx.ghost['K']
            h = L.heap
            fn = K.term(0)
            loc = L.term('func_locals')
            return [('locals-fresh', z3.And(is_dict(loc), V.dref(loc) >= K.heap.alloc, V.dref(loc) < h.alloc)),
                    ('index-range', z3.And(L.k >= 0, L.k <= MH.llen(V.lref(mget(fn, 'args'))))),
                    ('C04.bound-so-far', binding_spec(h, fn, K.term(1), loc, L.k, K.heap.alloc)),
                    ('frame', sp_.frame_same(K.heap, h, K.heap.alloc)),
                    ('model-frozen', frozen(h)), ('options-wf', wf_run_options(h, K.term(2)))]

        def lem(L):
            K = L.ctx.ghost['K']
            fargs = mget(K.term(0), 'args')
            name = z3.String('nm!lps')
            # instance of the precondition's quantifier at the loop index + the definition of LASTPOS at k
            return [z3.Implies(z3.And(L.k >= 0, L.k < MH.llen(V.lref(fargs))), is_str(MH.lget(V.lref(fargs), L.k))),
                    z3.ForAll([name], lastpos_step(fargs, name, L.k))]
        return {('runtime._script_function', 0): LoopSpec(inv, heap='havoc', lemmas=lem, mk_heap=masked_fresh,
                                                          header='range(func_args_length)')}

    callable_model = staticmethod(host_callable_model)


SCRIPT_FUNCTION = ScriptFunction()
SCRIPT_FUNCTION.callee_contracts = {EXECUTE_SCRIPT_HELPER.qual: EXECUTE_SCRIPT_HELPER}


class ExecuteScript(FnContract):
    qual = 'runtime.execute_script'
    frame = 'havoc'

    def params(self, ip):
        ctx = ip.ctx
        base = ctx.heap
        ctx.assume(z3.And(MB >= 0, MB <= base.alloc))
        ctx.heap = mask(base)
        script = ctx.fresh('script', V)
        options = ctx.fresh('options', V)
        ctx.ghost['options_terms'] = [options]
        return [S(script), S(options)]

    def pre(self, K):
        h = K.heap
        sc, o = K.term(0), K.term(1)
        mx = h.dget(V.dref(o), z3.StringVal('maxStatements'))
        return [('wf-script', z3.And(model_dict(sc), mhas(sc, 'statements'), WFSTMTS(mget(sc, 'statements')))),
                ('wf-options', z3.And(wf_options(h, o),
                                      z3.Implies(z3.And(is_dict(o), h.dhas(V.dref(o), z3.StringVal('maxStatements'))),
                                                 sp_.is_number(mx)))),
                ('model-frozen', frozen(h))]

    def may_raise(self, K):
        return [('BareScriptRuntimeError', None), ('BareScriptParserError', None)]

    def post(self, K, out):
        obs = []
        if out.kind == 'raise':
            ip = K.ip
            ok = [ip.exc_isinstance(out.exc, 'BareScriptRuntimeError'), ip.exc_isinstance(out.exc, 'BareScriptParserError')]
            contained = True if any(x is True for x in ok) else (z3.Or([x for x in ok if x is not False]) if any(x is not False for x in ok) else False)
            obs.append(('C05.only-documented-exceptions-escape', contained))
        obs.append(('C08.model-unmodified', frozen(K.heap_after)))
        if K.ctx.ghost.get('K') is K:
            ctx = K.ctx
            h0 = K.heap
            runs = [e for e in ctx.ghost.get('events', []) if e.get('kind') == 'call' and e['callee'] == 'runtime._execute_script_helper']
            if len(runs) != 1:
                return obs + [('C08.script-run-exactly-once', False)]
            run = runs[0]
            hb = run['heap_before']
            o_in = K.term(1)
            o = ctx.to_term(run['args'][1])
            g = hb.dget(V.dref(o), z3.StringVal('globals'))
            g_in = h0.dget(V.dref(o_in), z3.StringVal('globals'))
            supplied = z3.And(is_dict(o_in), h0.dhas(V.dref(o_in), z3.StringVal('globals')), is_dict(g_in))
            k = z3.String('k!inj_arbitrary')      # an arbitrary key (fresh constant: proving the clause for it proves it for all)
            has_lib = ufun('TABLE_HAS_library.SCRIPT_FUNCTIONS', Str, Bool)
            lib = ufun('TABLE_library.SCRIPT_FUNCTIONS', Str, V)
            was = z3.And(supplied, h0.dhas(V.dref(g_in), k))
            obs.append(('C04.statements-run-at-global-scope-with-these-options',
                        z3.And(ctx.to_term(run['args'][0]) == mget(K.term(0), 'statements'), ctx.to_term(run['args'][2]) == VNone,
                               z3.Implies(is_dict(o_in), o == o_in))))
            obs.append(('C04.caller-supplied-globals-object-is-used', z3.Implies(supplied, g == g_in)))
            obs.append(('C04.library-added-without-overwriting-caller-names',
                        z3.If(was, z3.And(hb.dhas(V.dref(g), k), hb.dget(V.dref(g), k) == h0.dget(V.dref(g_in), k)),
                              z3.And(hb.dhas(V.dref(g), k) == has_lib(k),
                                     z3.Implies(has_lib(k), hb.dget(V.dref(g), k) == lib(k))))))
            obs.append(('C09.counter-reset-at-entry', hb.dget(V.dref(o), z3.StringVal('statementCount')) == VInt(0)))
        return obs

    callable_model = staticmethod(host_callable_model)


EXECUTE_SCRIPT = ExecuteScript()
EXECUTE_SCRIPT.callee_contracts = {EXECUTE_SCRIPT_HELPER.qual: EXECUTE_SCRIPT_HELPER}


# ---------------------------------------------------------------------------------------------
# fixed native witness programs: consulted only when an obligation of the named clause is left undecided by the
# solvers (quantified path conditions); the witness decides by running the real code
# ---------------------------------------------------------------------------------------------
_W_PRELUDE = """
from bare_script import parse_script, execute_script, evaluate_expression, parse_expression
bad = []
def run(text, globals_=None, expect=None, what=''):
    g = dict(globals_ or {})
    try:
        got = execute_script(parse_script(text), {'globals': g, 'maxStatements': 10000})
    except Exception as exc:
        got = 'EXC ' + type(exc).__name__
    if got != expect:
        bad.append({'program': text, 'expected': expect, 'observed': repr(got), 'what': what})
    return g
"""

ASSIGNMENT_WITNESS = _W_PRELUDE + """
run('function fn():\\n    xx = 1\\n    return xx\\nendfunction\\nxx = 0\\nfn()\\nreturn xx\\n', expect=0.0,
    what='an assignment inside a function (even one without parameters) writes that call\\'s locals, not the globals')
run('function fn(aa):\\n    aa = 2\\nendfunction\\naa = 0\\nfn(1)\\nreturn aa\\n', expect=0.0, what='parameter re-assignment stays local')
run('xx = 3\\nreturn xx\\n', expect=3.0, what='top-level assignment writes the globals')
result = {'violates': bool(bad), 'counterexamples': bad[:2]}
"""

JUMP_WITNESS = _W_PRELUDE + """
model = {'statements': [
    {'expr': {'name': 'out', 'expr': {'string': ''}}},
    {'jump': {'label': 'lab'}},
    {'expr': {'name': 'out', 'expr': {'string': 'skipped'}}},
    {'label': 'lab'},
    {'expr': {'name': 'out', 'expr': {'binary': {'op': '+', 'left': {'variable': 'out'}, 'right': {'string': 'A'}}}}},
    {'jump': {'label': 'end', 'expr': {'variable': 'done'}}},
    {'expr': {'name': 'done', 'expr': {'variable': 'true'}}},
    {'label': 'lab'},
    {'expr': {'name': 'out', 'expr': {'binary': {'op': '+', 'left': {'variable': 'out'}, 'right': {'string': 'B'}}}}},
    {'jump': {'label': 'lab'}},
    {'label': 'end'},
    {'return': {'expr': {'variable': 'out'}}}]}
try:
    got = execute_script(model, {'globals': {}, 'maxStatements': 1000})
except Exception as exc:
    got = 'EXC ' + type(exc).__name__ + ': ' + str(exc)
if got != 'ABA':
    bad.append({'program': 'jump to a duplicated label', 'expected': 'ABA (first label of that name)', 'observed': repr(got)})
model0 = {'statements': [
    {'label': 'top'},
    {'expr': {'name': 'nn', 'expr': {'binary': {'op': '+', 'left': {'function': {'name': 'if', 'args': [{'variable': 'nn'}, {'variable': 'nn'}, {'number': 0}]}}, 'right': {'number': 1}}}}},
    {'jump': {'label': 'top', 'expr': {'binary': {'op': '<', 'left': {'variable': 'nn'}, 'right': {'number': 3}}}}},
    {'return': {'expr': {'variable': 'nn'}}}]}
try:
    got0 = execute_script(model0, {'globals': {}, 'maxStatements': 1000})
except Exception as exc:
    got0 = 'EXC ' + type(exc).__name__ + ': ' + str(exc)
if got0 != 3:
    bad.append({'program': 'jump back to a label that is the first statement of the list', 'expected': '3', 'observed': repr(got0)})
run('jumpif (objectNew()) skip\\nreturn 1\\nskip:\\nreturn 2\\n', expect=2.0, what='an empty object is truthy in a jump condition')
run('jumpif (arrayNew()) skip\\nreturn 1\\nskip:\\nreturn 2\\n', expect=1.0, what='an empty array is falsy in a jump condition')
result = {'violates': bool(bad), 'counterexamples': bad[:2]}
"""

BINDING_WITNESS = _W_PRELUDE + """
run('function fn(aa, bb):\\n    return bb\\nendfunction\\nbb = 5\\nreturn fn(1)\\n', expect=None, what='a missing argument is null, not the global of the same name')
run('function fn(aa, bb...):\\n    return bb\\nendfunction\\nreturn fn(1)\\n', expect=[], what='a missing rest parameter is an empty array')
run('function fn(aa, bb...):\\n    return arrayLength(bb)\\nendfunction\\nreturn fn(1, 2, 3)\\n', expect=2, what='rest parameter collects the remaining arguments')
run('function fn(aa):\\n    return aa\\nendfunction\\nreturn fn(1, 2)\\n', expect=1.0, what='surplus arguments are ignored')
result = {'violates': bool(bad), 'counterexamples': bad[:2]}
"""

OPERATOR_WITNESS = _W_PRELUDE + """
import datetime
dt = datetime.datetime(2020, 1, 1)
table = [
    ('1 == true', {}, False), ('1 != true', {}, True), ('0 == false', {}, False), ('null == null', {}, True),
    ('aa == bb', {'aa': [1, 2], 'bb': [True, 2]}, False), ('1 <= 1', {}, True), ('1 < 1', {}, False), ('"a" < "b"', {}, True),
    ('null < 0', {}, True), ('aa < bb', {'aa': [1], 'bb': [1, 0]}, True), ('7 / 2', {}, 3.5), ('aa / bb', {'aa': 7, 'bb': 2}, 3.5),
    ('aa % bb', {'aa': -7, 'bb': 2}, 1), ('2 ** 3', {}, 8.0), ('"a" + 1', {}, 'a1'), ('1 + "a"', {}, '1a'), ('true + 1', {}, None),
    ('-true', {}, None), ('!0', {}, True), ('aa && bb', {'aa': {}, 'bb': 2}, 2), ('aa || bb', {'aa': {}, 'bb': 2}, {}),
    ('aa && bb', {'aa': [], 'bb': 2}, []), ('(aa + 1.6) - aa', {'aa': dt}, 2.0), ('(aa + 2) - aa', {'aa': dt}, 2.0),
    ('1 / 0', {}, None), ('aa - bb', {'aa': dt + datetime.timedelta(milliseconds=1, microseconds=600), 'bb': dt}, 2.0),
]
for text, g, expect in table:
    try:
        got = evaluate_expression(parse_expression(text), {'globals': dict(g)})
    except Exception as exc:
        got = 'EXC ' + type(exc).__name__
    if got != expect or type(got) is bool and type(expect) is not bool or type(expect) is bool and type(got) is not bool:
        bad.append({'expression': text, 'globals': repr(g), 'expected': repr(expect), 'observed': repr(got)})
result = {'violates': bool(bad), 'counterexamples': bad[:3]}
"""

CONTAINMENT_WITNESS = _W_PRELUDE + """
import datetime
cases = [
    ("'value: ' + big", {'big': 16 ** 5000}, {}, None, 'text + an integer too long to print'),
    ("big + ' units'", {'big': 8 ** 6000}, {}, None, 'an integer too long to print + text'),
    ('1 / 0', {}, {}, None, 'division by zero'),
    ('2 ** 100000.5', {}, {}, None, 'power overflow'),
    ('dd + 1e+30', {'dd': datetime.datetime(2020, 1, 1)}, {}, None, 'datetime far out of range'),
    ('unknownFunction(1)', {}, {}, 'BareScriptRuntimeError', 'undefined function is the documented runtime error'),
]
for extra, what in (({'debug': True}, 'failing library call in debug mode without a logFn'), ({}, 'failing library call')):
    try:
        got = execute_script(parse_script('return arrayGet(1, 2)\\n'), dict({'globals': {}}, **extra))
        got = None if got is None else ('VALUE ' + repr(got)[:60])
    except Exception as exc:
        got = 'ESCAPED ' + type(exc).__name__ + ': ' + str(exc)[:80]
    if got is not None:
        bad.append({'expression': 'arrayGet(1, 2)', 'what': what, 'expected': 'null', 'observed': got})
from bare_script.runtime import BareScriptRuntimeError
for text, g, extra, expect, what in cases:
    try:
        got = evaluate_expression(parse_expression(text), dict({'globals': dict(g)}, **extra))
        got = None if got is None else ('VALUE ' + repr(got)[:60])
    except BareScriptRuntimeError as exc:
        got = 'BareScriptRuntimeError'
    except Exception as exc:
        got = 'ESCAPED ' + type(exc).__name__ + ': ' + str(exc)[:80]
    if got != expect:
        bad.append({'expression': text, 'what': what, 'expected': expect or 'null', 'observed': got})
result = {'violates': bool(bad), 'counterexamples': bad[:3]}
"""

ExecuteScriptHelper.native_witness = {'assignment-writes-locals-inside-functions-else-globals': ASSIGNMENT_WITNESS,
                                      'jump-continues-after-the-first-matching-label': JUMP_WITNESS,
                                      'C08.unknown-jump-label-is-raised-only': JUMP_WITNESS}
ScriptFunction.native_witness = {'C04.bound-so-far': BINDING_WITNESS, 'C04.parameters-bound-positionally': BINDING_WITNESS}
EvaluateExpression.native_witness = {'operator-semantics': OPERATOR_WITNESS, 'C03.short-circuit': OPERATOR_WITNESS,
                                     'C03.unary': OPERATOR_WITNESS, 'C05.only-documented-exceptions-escape': CONTAINMENT_WITNESS}

BUDGET_WITNESS = _W_PRELUDE + """
from bare_script.runtime import BareScriptRuntimeError
def count_run(text, limit):
    o = {'globals': {}, 'maxStatements': limit}
    try:
        execute_script(parse_script(text), o)
        return 'ok', o['statementCount']
    except BareScriptRuntimeError as exc:
        return 'aborted', o['statementCount']
prog = 'function one():\\n    return 1\\nendfunction\\nfunction rec(nn):\\n    return if(nn, rec(nn - 1), 0)\\nendfunction\\naa = one()\\nbb = one()\\ncc = rec(5)\\nreturn aa\\n'
status, total = count_run(prog, 0)
if status != 'ok' or total != 14:
    bad.append({'what': 'every statement of every script function call is counted (2 defs + 4 top-level + 2 one() + 6 rec())', 'observed': [status, total]})
for limit in range(1, total + 2):
    st, cnt = count_run(prog, limit)
    if (st == 'ok') != (limit >= total):
        bad.append({'what': 'aborted exactly when statement L+1 would start', 'limit': limit, 'observed': [st, cnt]})
        break
st, cnt = count_run('function loop(nn):\\n    return loop(nn + 1)\\nendfunction\\nreturn loop(0)\\n', 50)
if st != 'aborted':
    bad.append({'what': 'unbounded recursion through a one-line function is stopped by the budget', 'observed': [st, cnt]})
result = {'violates': bool(bad), 'counterexamples': bad[:2]}
"""
ScriptFunction.native_witness = dict(ScriptFunction.native_witness, **{'C09.': BUDGET_WITNESS, 'body-run': BUDGET_WITNESS})


import os as _os
with open(_os.path.join(_os.path.dirname(_os.path.dirname(_os.path.abspath(__file__))), 'native', 'witness', 'globals_witness.py'),
          encoding='utf-8') as _fh:
    GLOBALS_WITNESS = _fh.read()
ExecuteScript.native_witness = {'C04.library-added-without-overwriting-caller-names': GLOBALS_WITNESS}

import os as _os     # noqa: E402
with open(_os.path.join(_os.path.dirname(_os.path.dirname(_os.path.abspath(__file__))), 'native', 'witness', 'lookup_witness.py'),
          encoding='utf-8') as _fh:
    EvaluateExpression.native_witness = dict(EvaluateExpression.native_witness,
                                             **{'C04.lookup-locals-then-globals-then-builtins': _fh.read()})
