"""contracts.model_c — model.py: lint_script and its helpers (C18).

The script model lives in the frozen region of contracts.runtime_c (MH, MB): "lint never modifies the model" is the
obligation that every heap lint produces agrees with MH below MB; everything lint writes is a container it allocated
itself (or the assigns/uses dictionaries it was handed).
"""
import z3
from pyvc.core import (V, VNone, VBool, VInt, VStr, VList, VDict, is_none, is_bool, is_int, is_str, is_list, is_dict,
                       Str, Int, Bool, Heap, wf_value, Val, C, S, B, I, R, T, Obj)
from pyvc.contract import FnContract
from pyvc.models_loops import LoopSpec
from pyvc.models_calls import ufun
from . import specs as sp_
from .runtime_c import (MH, MB, mask, masked_fresh, frozen, WFEXPR, wfexpr_def, WFSTMTS, WFSTMT, wfstmts_def, wfstmt_def,
                        model_dict, in_model, mget, mhas, _sub)

NOFUNC = ufun('NO_FUNCTION_NODE', V, Bool)       # the expression contains no function call (so evaluating it has no effect)
LABEL_DEFS = ufun('LABEL_DEFS', V, Str, Int, Int)     # number of label statements named l among the first k statements
LABEL_USES = ufun('LABEL_USES', V, Str, Int, Int)     # number of jumps to l among the first k statements


USED = ufun('USED', V, Str, Bool)                 # the name occurs in the expression as a variable or a called function
ARGS_USED = ufun('ARGS_USED', V, Str, Int, Bool)  # ... in one of the first k expressions of the argument list
STMTS_USED = ufun('STMTS_USED', V, Str, Int, Bool)  # ... in the expression of one of the first k statements


def used_def(e, n):
    """USED(e, n) unfolded once (written from the model schema: variable, binary, unary, group, function)"""
    k = key_of(e)
    fn = _sub(e, 'function')
    args = MH.dget(V.dref(fn), z3.StringVal('args'))
    return z3.If(k == z3.StringVal('variable'), n == V.s(_sub(e, 'variable')),
           z3.If(k == z3.StringVal('binary'), z3.Or(USED(_sub(e, 'binary', 'left'), n), USED(_sub(e, 'binary', 'right'), n)),
           z3.If(k == z3.StringVal('unary'), USED(_sub(e, 'unary', 'expr'), n),
           z3.If(k == z3.StringVal('group'), USED(_sub(e, 'group'), n),
           z3.If(k == z3.StringVal('function'),
                 z3.Or(n == V.s(MH.dget(V.dref(fn), z3.StringVal('name'))),
                       z3.And(MH.dhas(V.dref(fn), z3.StringVal('args')), ARGS_USED(args, n, MH.llen(V.lref(args))))),
                 False)))))


def args_used_step(args, n, k):
    return ARGS_USED(args, n, k + 1) == z3.Or(ARGS_USED(args, n, k), USED(MH.lget(V.lref(args), k), n))


def stmt_used(st, n):
    """the name occurs in the expression a statement evaluates (expression statements, conditional jumps, returns)"""
    ex = mget(st, 'expr')
    jm = mget(st, 'jump')
    rt = mget(st, 'return')
    return z3.Or(z3.And(mhas(st, 'expr'), USED(mget(ex, 'expr'), n)),
                 z3.And(mhas(st, 'jump'), mhas(jm, 'expr'), USED(mget(jm, 'expr'), n)),
                 z3.And(mhas(st, 'return'), mhas(rt, 'expr'), USED(mget(rt, 'expr'), n)))


def stmts_used_step(stmts, n, k):
    return STMTS_USED(stmts, n, k + 1) == z3.Or(STMTS_USED(stmts, n, k), stmt_used(MH.lget(V.lref(stmts), k), n))


def key_of(e):
    return MH.dkey(V.dref(e), 0)


def nofunc_def(e):
    k = key_of(e)
    return z3.And(k != z3.StringVal('function'),
                  z3.Implies(k == z3.StringVal('binary'), z3.And(NOFUNC(_sub(e, 'binary', 'left')), NOFUNC(_sub(e, 'binary', 'right')))),
                  z3.Implies(k == z3.StringVal('unary'), NOFUNC(_sub(e, 'unary', 'expr'))),
                  z3.Implies(k == z3.StringVal('group'), NOFUNC(_sub(e, 'group'))))


def expr_axioms(e):
    out = [('WFEXPR-def', z3.Implies(WFEXPR(e), wfexpr_def(e)))]
    kids = [_sub(e, 'group'), _sub(e, 'unary', 'expr'), _sub(e, 'binary', 'left'), _sub(e, 'binary', 'right')]
    for ix, kid in enumerate(kids):
        out.append((f'WFEXPR-shallow{ix}', z3.Implies(WFEXPR(kid), z3.And(model_dict(kid), MH.dnk(V.dref(kid)) == 1))))
    return out


def fresh_dict(h, d, bound):
    return z3.And(is_dict(d), V.dref(d) >= MB, V.dref(d) >= 0, V.dref(d) < h.alloc)


class ModelFn(FnContract):
    frame = 'havoc'

    def base_params(self, ip):
        ctx = ip.ctx
        base = ctx.heap
        ctx.assume(z3.And(MB >= 0, MB <= base.alloc))
        ctx.heap = mask(base)

    def never_raises(self, out):
        return [('C18.never-raises-on-a-schema-valid-model', out.kind == 'return')]


class IsPointless(ModelFn):
    qual = 'model._is_pointless_expression'
    frame = 'pure'
    result = 'bool'

    def params(self, ip):
        self.base_params(ip)
        return [S(ip.ctx.fresh('expr', V))]

    def pre(self, K):
        return [('wf-expr', WFEXPR(K.term(0)))]

    def axioms(self, K):
        e = K.term(0)
        return expr_axioms(e) + [('NOFUNC-def', NOFUNC(e) == nofunc_def(e))]

    def post(self, K, out):
        obs = self.never_raises(out)
        if out.kind == 'return':
            r = K.ctx.truthy(out.value)
            r = z3.BoolVal(r) if isinstance(r, bool) else r
            obs.append(('C18.pointless-means-no-function-call-anywhere-inside', z3.Implies(r, NOFUNC(K.term(0)))))
        return obs


IS_POINTLESS = IsPointless()
IS_POINTLESS.callee_contracts = {IS_POINTLESS.qual: IS_POINTLESS}


def only_these_change(ip, h0, refs, tag):
    """callee frame: only the listed dictionaries (and fresh objects) may differ"""
    fresh = ip.ctx.fresh_heap(tag)
    ip.ctx.assume(fresh.alloc >= h0.alloc)
    r = z3.Int('r!otc')
    changed = z3.Or([r == x for x in refs] + [r >= h0.alloc])

    def m(old, new, is_dict_arr):
        return z3.Lambda([r], z3.If(changed if is_dict_arr else r >= h0.alloc, z3.Select(new, r), z3.Select(old, r)))
    return Heap(m(h0.LEN, fresh.LEN, False), m(h0.ELS, fresh.ELS, False), m(h0.HAS, fresh.HAS, True),
                m(h0.VAL, fresh.VAL, True), m(h0.NK, fresh.NK, True), m(h0.KEY, fresh.KEY, True), fresh.alloc)


class GetExprUses(ModelFn):
    qual = 'model._get_expression_variable_uses'
    result = 'none'

    def params(self, ip):
        self.base_params(ip)
        ctx = ip.ctx
        uses = ctx.fresh('uses', V)
        return [S(ctx.fresh('expr', V)), S(uses), I(ctx.fresh('ix_statement', Int))]

    def pre(self, K):
        h = K.heap
        return [('wf-expr', WFEXPR(K.term(0))), ('uses-is-a-working-dict', fresh_dict(h, K.term(1), None)),
                ('model-frozen', frozen(h))]

    def axioms(self, K):
        n = z3.String('n!ud')
        e = K.term(0)
        fn = _sub(e, 'function')
        args = MH.dget(V.dref(fn), z3.StringVal('args'))
        return expr_axioms(e) + [('USED-def', z3.ForAll([n], USED(e, n) == used_def(e, n))),
                                 ('ARGS_USED-base', z3.ForAll([n], z3.Not(ARGS_USED(args, n, 0))))]

    def havoc_heap(self, ip, h0):
        K = ip.ctx.ghost.get('callview')
        return only_these_change(ip, h0, [V.dref(ip.ctx.to_term(self._uses))], 'uses')

    def apply(self, ip, args, kwargs):
        self._uses = args[1]
        return super().apply(ip, args, kwargs)

    def post(self, K, out):
        h1 = K.heap_after
        n = z3.String('n!up')
        u = V.dref(K.term(1))
        return self.never_raises(out) + [('C18.model-unmodified', frozen(h1)),
                                         ('uses-still-a-dict', fresh_dict(h1, K.term(1), None)),
                                         ('C18.uses-only-grow', z3.ForAll([n], z3.Implies(K.heap.dhas(u, n), h1.dhas(u, n)))),
                                         ('C18.every-name-the-expression-reads-is-recorded',
                                          z3.ForAll([n], z3.Implies(USED(K.term(0), n), h1.dhas(u, n))))]

    @property
    def loop_specs(self):
        def inv(L):
            K = L.ctx.ghost['K']
            h = L.heap
            n = z3.String('n!ui')
            u = V.dref(K.term(1))
            args = MH.dget(V.dref(_sub(K.term(0), 'function')), z3.StringVal('args'))
            return [('model-frozen', frozen(h)), ('uses', fresh_dict(h, K.term(1), None)),
                    ('uses-only-grow', z3.ForAll([n], z3.Implies(K.heap.dhas(u, n), h.dhas(u, n)))),
                    ('function-name-recorded', h.dhas(u, V.s(MH.dget(V.dref(_sub(K.term(0), 'function')), z3.StringVal('name'))))),
                    ('index-range', z3.And(L.k >= 0, L.k <= MH.llen(V.lref(args)))),
                    ('names-read-by-the-arguments-so-far-are-recorded', z3.ForAll([n], z3.Implies(ARGS_USED(args, n, L.k), h.dhas(u, n))))]

        def lem(L):
            K = L.ctx.ghost['K']
            n = z3.String('n!ul')
            args = MH.dget(V.dref(_sub(K.term(0), 'function')), z3.StringVal('args'))
            return [z3.ForAll([n], args_used_step(args, n, L.k)),
                    z3.Implies(z3.And(L.k >= 0, L.k < MH.llen(V.lref(args))), WFEXPR(MH.lget(V.lref(args), L.k)))]
        return {(self.qual, 0): LoopSpec(inv, heap='havoc', mk_heap=masked_fresh, lemmas=lem)}


GET_EXPR_USES = GetExprUses()
GET_EXPR_USES.callee_contracts = {GET_EXPR_USES.qual: GET_EXPR_USES}


class GetAssignsUses(ModelFn):
    qual = 'model._get_variable_assignments_and_uses'
    result = 'none'

    def params(self, ip):
        self.base_params(ip)
        ctx = ip.ctx
        return [S(ctx.fresh('statements', V)), S(ctx.fresh('assigns', V)), S(ctx.fresh('uses', V))]

    def pre(self, K):
        h = K.heap
        return [('wf-statements', WFSTMTS(K.term(0))), ('assigns', fresh_dict(h, K.term(1), None)),
                ('uses', fresh_dict(h, K.term(2), None)), ('distinct', V.dref(K.term(1)) != V.dref(K.term(2))),
                ('model-frozen', frozen(h))]

    def axioms(self, K):
        s = K.term(0)
        n = z3.String('n!sb')
        return [('WFSTMTS-def', z3.Implies(WFSTMTS(s), wfstmts_def(s))),
                ('STMTS_USED-base', z3.ForAll([n], z3.Not(STMTS_USED(s, n, 0))))]

    def apply(self, ip, args, kwargs):
        self._dicts = [args[1], args[2]]
        return super().apply(ip, args, kwargs)

    def havoc_heap(self, ip, h0):
        return only_these_change(ip, h0, [V.dref(ip.ctx.to_term(d)) for d in self._dicts], 'au')

    def post(self, K, out):
        h1 = K.heap_after
        n = z3.String('n!sp')
        u = V.dref(K.term(2))
        stmts = K.term(0)
        return self.never_raises(out) + [('C18.model-unmodified', frozen(h1)),
                                         ('dicts-still-dicts', z3.And(fresh_dict(h1, K.term(1), None), fresh_dict(h1, K.term(2), None))),
                                         ('C18.uses-only-grow', z3.ForAll([n], z3.Implies(K.heap.dhas(u, n), h1.dhas(u, n)))),
                                         ('C18.every-name-a-statement-reads-is-recorded',
                                          z3.ForAll([n], z3.Implies(STMTS_USED(stmts, n, MH.llen(V.lref(stmts))), h1.dhas(u, n))))]

    @property
    def loop_specs(self):
        def inv(L):
            K = L.ctx.ghost['K']
            h = L.heap
            n = z3.String('n!si')
            u = V.dref(K.term(2))
            stmts = K.term(0)
            return [('model-frozen', frozen(h)), ('assigns', fresh_dict(h, K.term(1), None)), ('uses', fresh_dict(h, K.term(2), None)),
                    ('index-range', z3.And(L.k >= 0, L.k <= MH.llen(V.lref(stmts)))),
                    ('uses-only-grow', z3.ForAll([n], z3.Implies(K.heap.dhas(u, n), h.dhas(u, n)))),
                    ('names-read-by-the-statements-so-far-are-recorded',
                     z3.ForAll([n], z3.Implies(STMTS_USED(stmts, n, L.k), h.dhas(u, n))))]

        def lem(L):
            K = L.ctx.ghost['K']
            n = z3.String('n!sl')
            stmts = K.term(0)
            st = MH.lget(V.lref(stmts), L.k)
            return [z3.Implies(z3.And(L.k >= 0, L.k < MH.llen(V.lref(stmts))), z3.And(WFSTMT(st), wfstmt_def(st))),
                    z3.ForAll([n], stmts_used_step(stmts, n, L.k))]
        return {(self.qual, 0): LoopSpec(inv, heap='havoc', lemmas=lem, mk_heap=masked_fresh)}


GET_ASSIGNS_USES = GetAssignsUses()
GET_ASSIGNS_USES.callee_contracts = {GET_EXPR_USES.qual: GET_EXPR_USES}


# ---------------------------------------------------------------------------------------------
# lint_script
# ---------------------------------------------------------------------------------------------
from pyvc.models_calls import SORTED_KEYS            # noqa: E402

INT_DICTS = ['var_assigns', 'var_uses', 'functions_defined', 'labels_defined', 'labels_used', 'fn_var_assigns', 'fn_var_uses',
             'fn_labels_defined', 'fn_labels_used']
SORTED_SOURCE = {0: 'var_assigns', 2: 'fn_var_assigns', 3: 'fn_var_assigns', 6: 'fn_labels_defined', 7: 'fn_labels_used',
                 8: 'labels_defined', 9: 'labels_used'}


def lint_typing(L):
    """the (assumed) typing of lint's working state: its own containers, frozen model"""
    h = L.heap
    facts = [('model-frozen', frozen(h))]
    w = L.term('warnings')
    facts.append(('warnings', z3.And(is_list(w), V.lref(w) >= MB, V.lref(w) < h.alloc, h.llen(V.lref(w)) >= 0)))
    k = z3.String('k!lt')
    refs = [V.lref(w)]
    for name in INT_DICTS + ['args_defined']:
        if L.has(name):
            d = L.term(name)
            facts.append((name, fresh_dict(h, d, None)))
            if name in INT_DICTS:
                facts.append((name + '-values', z3.ForAll([k], z3.Implies(h.dhas(V.dref(d), k), is_int(h.dget(V.dref(d), k))))))
    return facts


def lint_lemmas(ordinal):
    def lem(L):
        h = L.heap
        out = []
        K = L.ctx.ghost['K']
        if ordinal in SORTED_SOURCE and L.has(SORTED_SOURCE[ordinal]):
            keys, sref, sn, sh = L.ctx.ghost['last_sorted']
            key = z3.Select(keys, L.k)
            # assumed contract of sorted(d.keys()): its elements are keys of d
            out.append(z3.Implies(z3.And(L.k >= 0, L.k < sn), h.dhas(V.dref(L.term(SORTED_SOURCE[ordinal])), key)))
            for name in INT_DICTS:
                if L.has(name):
                    d = L.term(name)
                    out.append(z3.Implies(h.dhas(V.dref(d), key), is_int(h.dget(V.dref(d), key))))
        if ordinal == 1:
            stmts = mget(K.term(0), 'statements')
            st = MH.lget(V.lref(stmts), L.k)
            out.append(z3.Implies(z3.And(L.k >= 0, L.k < MH.llen(V.lref(stmts))), z3.And(WFSTMT(st), wfstmt_def(st))))
        if ordinal in (4, 5) and L.has('statement'):
            st = L.term('statement')
            fn = mget(st, 'function')
            if ordinal == 5:
                body = mget(fn, 'statements')
                s2 = MH.lget(V.lref(body), L.k)
                out.append(z3.Implies(z3.And(L.k >= 0, L.k < MH.llen(V.lref(body))), z3.And(WFSTMT(s2), wfstmt_def(s2))))
                out.append(z3.Implies(WFSTMTS(body), wfstmts_def(body)))
            else:
                fargs = mget(fn, 'args')
                out.append(z3.Implies(z3.And(L.k >= 0, L.k < MH.llen(V.lref(fargs))), is_str(MH.lget(V.lref(fargs), L.k))))
        return out
    return lem


def scan_maps_empty(ctx, events):
    """the assignment/use scans of a scope start from empty maps (else indices of another scope leak into the
    used-before-assignment and unused-variable warnings)"""
    k = z3.String('k!ce')
    obs = []
    calls = [ev for ev in events if ev.get('kind') == 'call' and ev.get('callee') == GET_ASSIGNS_USES.qual]
    for ix, e in enumerate(calls):
        hb = e['heap_before']
        for pos, what in ((1, 'assigns'), (2, 'uses')):
            d = ctx.to_term(e['args'][pos])
            obs.append((f'C18.scan{ix}-{what}-map-is-empty-at-the-head-of-its-scope',
                        z3.And(is_dict(d), hb.dnk(V.dref(d)) == 0, z3.ForAll([k], z3.Not(hb.dhas(V.dref(d), k))))))
    return obs


LABEL_LOOPS = {1: ('statement', 'labels_defined', 'labels_used'), 5: ('fn_statement', 'fn_labels_defined', 'fn_labels_used')}
WARN_LOOPS = {3: ('fn_var_assigns', 'fn_var_uses', 'Unused variable "', 'var_name'),
              6: ('fn_labels_defined', 'fn_labels_used', 'Unused label "', 'label'), 7: ('fn_labels_used', 'fn_labels_defined', 'Unknown label "', 'label'),
              8: ('labels_defined', 'labels_used', 'Unused global label "', 'label'),
              9: ('labels_used', 'labels_defined', 'Unknown global label "', 'label')}


def names_label(ctx, last, prefix, lab):
    """the appended warning is a string that starts with <prefix><label>" — decided on the shape of the term when the
    f-string is a concatenation (no string solving), otherwise left to the solver"""
    t = z3.simplify(V.s(z3.simplify(last)))
    goal = z3.And(is_str(last), z3.PrefixOf(z3.Concat(z3.StringVal(prefix), lab, z3.StringVal('"')), V.s(last)))
    if z3.is_app(t) and t.decl().kind() == z3.Z3_OP_SEQ_CONCAT:
        parts = []

        def flat(x):
            if z3.is_app(x) and x.decl().kind() == z3.Z3_OP_SEQ_CONCAT:
                for c in x.children():
                    flat(c)
            else:
                parts.append(x)
        flat(t)
        def is_label(x):
            # the label itself, or the f-string rendering of a value whose string is the label (names are strings: dict
            # keys and the label fields of a schema-valid model)
            x = z3.simplify(x)
            if x.eq(z3.simplify(lab)):
                return True
            if z3.is_app(x) and x.decl().kind() == z3.Z3_OP_ITE and z3.simplify(x.arg(1)).eq(z3.simplify(lab)):
                return True
            if z3.is_app(x) and x.decl().name().startswith('FMT_') and z3.simplify(V.s(x.arg(0))).eq(z3.simplify(lab)):
                return True
            return False
        if len(parts) >= 3 and z3.is_string_value(parts[0]) and parts[0].as_string() == prefix and \
                is_label(parts[1]) and z3.is_string_value(parts[2]) and parts[2].as_string().startswith('"'):
            return z3.BoolVal(True)
    return goal


def label_step_spec(n):
    """One-iteration specifications of the label bookkeeping (C18 exactness): the statement loops add exactly the label
    defined / the label jumped to by the statement at hand and warn exactly for a redefinition; the reporting loops warn for
    exactly the names missing from the other map and name them. With the maps empty at the head of every scope (entry
    checks) and sorted(d.keys()) enumerating the keys of d (assumed), induction over the loops (meta-theorem) gives: the
    unknown-label warnings of a scope are exactly the jump targets without a definition in that scope, the unused-label
    warnings exactly the definitions nothing jumps to, the redefinition warnings exactly the repeated definitions."""
    tag = f'model.lint_script.loop{n}'

    def check(L, events):
        ctx = L.ctx
        begin = next((e for e in reversed(ctx.ghost.get('events', [])) if e.get('kind') == 'loop-body-begin' and e.get('loop') == tag), None)
        if begin is None:
            return [('C18.loop-head-state-recorded', z3.BoolVal(False))]
        hh, envh = begin['heap'], begin['env']
        h = L.heap
        name = z3.String('n!ls')

        def t0(nm):
            return ctx.to_term(envh[nm])
        W0, W = t0('warnings'), L.term('warnings')
        wlen0, wlen = hh.llen(V.lref(W0)), h.llen(V.lref(W))
        obs = [('C18.warnings-list-is-the-same-object', W == W0)]
        if n in LABEL_LOOPS:
            stname, dn, un = LABEL_LOOPS[n]
            st = L.term(stname)
            D0, U0, D, U = t0(dn), t0(un), L.term(dn), L.term(un)
            is_label, is_jump = mhas(st, 'label'), mhas(st, 'jump')
            scope = z3.Not(mhas(st, 'function')) if n == 1 else z3.BoolVal(True)
            lab = V.s(mget(st, 'label'))
            jl = V.s(mget(mget(st, 'jump'), 'label'))
            dr, ur = V.dref(D), V.dref(U)
            obs += [
                ('C18.label-maps-are-the-same-objects', z3.And(D == D0, U == U0)),
                ('C18.defined-labels-grow-by-exactly-this-label-statement', z3.Implies(scope, z3.ForAll(
                    [name], h.dhas(dr, name) == z3.Or(hh.dhas(dr, name), z3.And(is_label, name == lab))))),
                ('C18.used-labels-grow-by-exactly-this-jump', z3.Implies(scope, z3.ForAll(
                    [name], h.dhas(ur, name) == z3.Or(hh.dhas(ur, name), z3.And(is_jump, name == jl))))),
                ('C18.a-label-statement-warns-iff-it-redefines-the-label',
                 z3.Implies(is_label, wlen == wlen0 + z3.If(hh.dhas(dr, lab), 1, 0))),
                ('C18.a-jump-statement-never-warns', z3.Implies(is_jump, wlen == wlen0)),
            ]
        else:
            src, other, prefix, var = WARN_LOOPS[n]
            S_, O_ = L.term(src), L.term(other)
            lab = V.s(L.term(var))
            missing = z3.Not(hh.dhas(V.dref(O_), lab))
            last = h.lget(V.lref(W), wlen0)
            obs += [
                ('C18.reporting-leaves-the-label-maps-alone', z3.ForAll([name], z3.And(
                    h.dhas(V.dref(S_), name) == hh.dhas(V.dref(S_), name), h.dhas(V.dref(O_), name) == hh.dhas(V.dref(O_), name)))),
                ('C18.warns-exactly-for-a-name-missing-from-the-other-map', wlen == wlen0 + z3.If(missing, 1, 0)),
                ('C18.the-warning-names-the-label',
                 z3.BoolVal(True) if z3.is_int_value(z3.simplify(wlen - wlen0)) and z3.simplify(wlen - wlen0).as_long() == 0
                 else z3.Implies(missing, names_label(ctx, last, prefix, lab))),
            ]
        return obs
    return check


class LintScript(ModelFn):
    qual = 'model.lint_script'
    branch_timeout_ms = 400      # feasibility checks that do not answer quickly are treated as feasible (sound)

    def params(self, ip):
        self.base_params(ip)
        return [S(ip.ctx.fresh('script', V))]

    def pre(self, K):
        sc = K.term(0)
        return [('wf-script', z3.And(model_dict(sc), mhas(sc, 'statements'), WFSTMTS(mget(sc, 'statements')))),
                ('model-frozen', frozen(K.heap))]

    def axioms(self, K):
        s = mget(K.term(0), 'statements')
        return [('WFSTMTS-def', z3.Implies(WFSTMTS(s), wfstmts_def(s)))]

    def post(self, K, out):
        h0, h1 = K.heap, K.heap_after
        obs = self.never_raises(out)
        obs.append(('C18.model-unmodified', frozen(h1)))
        obs.append(('C18.nothing-but-fresh-objects-written', sp_.frame_same(h0, h1, h0.alloc)))
        if out.kind == 'return':
            r = K.ctx.to_term(out.value)
            obs.append(('C18.returns-a-fresh-list-of-warnings', z3.And(is_list(r), V.lref(r) >= h0.alloc, V.lref(r) < h1.alloc)))
        obs += scan_maps_empty(K.ctx, K.ctx.ghost.get('events', []))
        return obs

    @property
    def loop_specs(self):
        def frame_inv(L):
            K = L.ctx.ghost['K']
            return lint_typing(L) + [('frame', sp_.frame_same(K.heap, L.heap, K.heap.alloc))]
        def entry(names):
            # exactness of the redefinition/unknown/unused warnings starts from bookkeeping that is empty at the head of
            # every scope: the global statement list (loop 1) and each function body (loop 5)
            def check(L):
                h = L.heap
                k = z3.String('k!le')
                out = []
                for name in names:
                    if not L.has(name):
                        # the contract is anchored to this local: without it the clause cannot be stated (undecided, not a
                        # violation — a renamed local is not a defect)
                        from pyvc.interp import OutOfReach
                        raise OutOfReach(f'lint_script: the local `{name}` the label-bookkeeping contract is anchored to does not exist')
                    d = L.term(name)
                    out.append((f'C18.{name}-is-empty-at-the-head-of-its-scope',
                                z3.And(is_dict(d), h.dnk(V.dref(d)) == 0, z3.ForAll([k], z3.Not(h.dhas(V.dref(d), k))))))
                return out
            return check
        entries = {1: entry(['functions_defined', 'labels_defined', 'labels_used']),
                   5: entry(['fn_labels_defined', 'fn_labels_used'])}
        body_checks = {n: label_step_spec(n) for n in (3, 5, 6, 7, 8, 9)}
        step1 = label_step_spec(1)

        def every_definition_linted(L, events):
            # every function statement of the script — also a second definition of a name, which is the one in effect at
            # run time — has its body walked: the argument, statement and label-reporting loops of the function arm all ran
            # to completion in this iteration of the global statement loop
            st = L.term(LABEL_LOOPS[1][0])
            done = {e['loop'] for e in events if e.get('kind') == 'loop-done'}
            need = [f'{self.qual}.loop{n}' for n in (2, 3, 5, 6, 7)]
            return [('C18.every-function-definition-is-linted',
                     z3.Implies(mhas(st, 'function'), z3.BoolVal(all(t in done for t in need))))]
        body_checks[1] = lambda L, events: scan_maps_empty(L.ctx, events) + step1(L, events) + every_definition_linted(L, events)
        return {(self.qual, n): LoopSpec(frame_inv, heap='havoc', lemmas=lint_lemmas(n), mk_heap=masked_fresh,
                                         trusted_invariant=True, entry_check=entries.get(n),
                                         body_check=body_checks.get(n))
                for n in range(10)}


import os as _os
with open(_os.path.join(_os.path.dirname(_os.path.dirname(_os.path.abspath(__file__))), 'native', 'witness', 'lint_scope_witness.py'),
          encoding='utf-8') as _fh:
    LINT_SCOPE_WITNESS = _fh.read()
LintScript.native_witness = {'is-empty-at-the-head-of-its-scope': LINT_SCOPE_WITNESS, 'C18.defined-labels-grow': LINT_SCOPE_WITNESS,
                             'C18.used-labels-grow': LINT_SCOPE_WITNESS, 'C18.warns-exactly-for-a-name-missing': LINT_SCOPE_WITNESS,
                             'C18.a-label-statement-warns-iff': LINT_SCOPE_WITNESS,
                             'C18.every-function-definition-is-linted': LINT_SCOPE_WITNESS}
GetExprUses.native_witness = {'C18.every-name-the-expression-reads-is-recorded': LINT_SCOPE_WITNESS,
                              'names-read-by-the-arguments-so-far-are-recorded': LINT_SCOPE_WITNESS}
GetAssignsUses.native_witness = {'C18.every-name-a-statement-reads-is-recorded': LINT_SCOPE_WITNESS,
                                 'names-read-by-the-statements-so-far-are-recorded': LINT_SCOPE_WITNESS}
IsPointless.native_witness = {'C18.pointless-means-no-function-call-anywhere-inside': LINT_SCOPE_WITNESS}
LINT_SCRIPT_IMPL = LintScript()
LINT_SCRIPT_IMPL.callee_contracts = {GET_ASSIGNS_USES.qual: GET_ASSIGNS_USES, IS_POINTLESS.qual: IS_POINTLESS}
