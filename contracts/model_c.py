"""contracts.model_c — model.py: lint_script and its helpers (C18).

The script model lives in the frozen region of contracts.runtime_c (MH, MB): "lint never modifies the model" is the
obligation that every heap lint produces agrees with MH below MB; everything lint writes is a container it allocated
itself (or the assigns/uses dictionaries it was handed).
"""
import z3
from pyvc.core import (V, VNone, VBool, VInt, VStr, VList, VDict, is_none, is_bool, is_int, is_str, is_list, is_dict,
                       Str, Int, Bool, Heap, wf_value, Val, C, S, B, I, R, T, Obj)
from pyvc.contract import FnContract
from pyvc.models_loops import LoopSpec
from pyvc.models_calls import ufun
from . import specs as sp_
from .runtime_c import (MH, MB, mask, masked_fresh, frozen, WFEXPR, wfexpr_def, WFSTMTS, WFSTMT, wfstmts_def, wfstmt_def,
                        model_dict, in_model, mget, mhas, _sub)

NOFUNC = ufun('NO_FUNCTION_NODE', V, Bool)       # the expression contains no function call (so evaluating it has no effect)
LABEL_DEFS = ufun('LABEL_DEFS', V, Str, Int, Int)     # number of label statements named l among the first k statements
LABEL_USES = ufun('LABEL_USES', V, Str, Int, Int)     # number of jumps to l among the first k statements


def key_of(e):
    return MH.dkey(V.dref(e), 0)


def nofunc_def(e):
    k = key_of(e)
    return z3.And(k != z3.StringVal('function'),
                  z3.Implies(k == z3.StringVal('binary'), z3.And(NOFUNC(_sub(e, 'binary', 'left')), NOFUNC(_sub(e, 'binary', 'right')))),
                  z3.Implies(k == z3.StringVal('unary'), NOFUNC(_sub(e, 'unary', 'expr'))),
                  z3.Implies(k == z3.StringVal('group'), NOFUNC(_sub(e, 'group'))))


def expr_axioms(e):
    out = [('WFEXPR-def', z3.Implies(WFEXPR(e), wfexpr_def(e)))]
    kids = [_sub(e, 'group'), _sub(e, 'unary', 'expr'), _sub(e, 'binary', 'left'), _sub(e, 'binary', 'right')]
    for ix, kid in enumerate(kids):
        out.append((f'WFEXPR-shallow{ix}', z3.Implies(WFEXPR(kid), z3.And(model_dict(kid), MH.dnk(V.dref(kid)) == 1))))
    return out


def fresh_dict(h, d, bound):
    return z3.And(is_dict(d), V.dref(d) >= MB, V.dref(d) >= 0, V.dref(d) < h.alloc)


class ModelFn(FnContract):
    frame = 'havoc'

    def base_params(self, ip):
        ctx = ip.ctx
        base = ctx.heap
        ctx.assume(z3.And(MB >= 0, MB <= base.alloc))
        ctx.heap = mask(base)

    def never_raises(self, out):
        return [('C18.never-raises-on-a-schema-valid-model', out.kind == 'return')]


class IsPointless(ModelFn):
    qual = 'model._is_pointless_expression'
    frame = 'pure'
    result = 'bool'

    def params(self, ip):
        self.base_params(ip)
        return [S(ip.ctx.fresh('expr', V))]

    def pre(self, K):
        return [('wf-expr', WFEXPR(K.term(0)))]

    def axioms(self, K):
        e = K.term(0)
        return expr_axioms(e) + [('NOFUNC-def', NOFUNC(e) == nofunc_def(e))]

    def post(self, K, out):
        obs = self.never_raises(out)
        if out.kind == 'return':
            r = K.ctx.truthy(out.value)
            r = z3.BoolVal(r) if isinstance(r, bool) else r
            obs.append(('C18.pointless-means-no-function-call-anywhere-inside', z3.Implies(r, NOFUNC(K.term(0)))))
        return obs


IS_POINTLESS = IsPointless()
IS_POINTLESS.callee_contracts = {IS_POINTLESS.qual: IS_POINTLESS}


def only_these_change(ip, h0, refs, tag):
    """callee frame: only the listed dictionaries (and fresh objects) may differ"""
    fresh = ip.ctx.fresh_heap(tag)
    ip.ctx.assume(fresh.alloc >= h0.alloc)
    r = z3.Int('r!otc')
    changed = z3.Or([r == x for x in refs] + [r >= h0.alloc])

    def m(old, new, is_dict_arr):
        return z3.Lambda([r], z3.If(changed if is_dict_arr else r >= h0.alloc, z3.Select(new, r), z3.Select(old, r)))
    return Heap(m(h0.LEN, fresh.LEN, False), m(h0.ELS, fresh.ELS, False), m(h0.HAS, fresh.HAS, True),
                m(h0.VAL, fresh.VAL, True), m(h0.NK, fresh.NK, True), m(h0.KEY, fresh.KEY, True), fresh.alloc)


class GetExprUses(ModelFn):
    qual = 'model._get_expression_variable_uses'
    result = 'none'

    def params(self, ip):
        self.base_params(ip)
        ctx = ip.ctx
        uses = ctx.fresh('uses', V)
        return [S(ctx.fresh('expr', V)), S(uses), I(ctx.fresh('ix_statement', Int))]

    def pre(self, K):
        h = K.heap
        return [('wf-expr', WFEXPR(K.term(0))), ('uses-is-a-working-dict', fresh_dict(h, K.term(1), None)),
                ('model-frozen', frozen(h))]

    def axioms(self, K):
        return expr_axioms(K.term(0))

    def havoc_heap(self, ip, h0):
        K = ip.ctx.ghost.get('callview')
        return only_these_change(ip, h0, [V.dref(ip.ctx.to_term(self._uses))], 'uses')

    def apply(self, ip, args, kwargs):
        self._uses = args[1]
        return super().apply(ip, args, kwargs)

    def post(self, K, out):
        h1 = K.heap_after
        return self.never_raises(out) + [('C18.model-unmodified', frozen(h1)),
                                         ('uses-still-a-dict', fresh_dict(h1, K.term(1), None))]

    @property
    def loop_specs(self):
        def inv(L):
            K = L.ctx.ghost['K']
            h = L.heap
            return [('model-frozen', frozen(h)), ('uses', fresh_dict(h, K.term(1), None))]
        return {(self.qual, 0): LoopSpec(inv, heap='havoc', mk_heap=masked_fresh)}


GET_EXPR_USES = GetExprUses()
GET_EXPR_USES.callee_contracts = {GET_EXPR_USES.qual: GET_EXPR_USES}


class GetAssignsUses(ModelFn):
    qual = 'model._get_variable_assignments_and_uses'
    result = 'none'

    def params(self, ip):
        self.base_params(ip)
        ctx = ip.ctx
        return [S(ctx.fresh('statements', V)), S(ctx.fresh('assigns', V)), S(ctx.fresh('uses', V))]

    def pre(self, K):
        h = K.heap
        return [('wf-statements', WFSTMTS(K.term(0))), ('assigns', fresh_dict(h, K.term(1), None)),
                ('uses', fresh_dict(h, K.term(2), None)), ('distinct', V.dref(K.term(1)) != V.dref(K.term(2))),
                ('model-frozen', frozen(h))]

    def axioms(self, K):
        s = K.term(0)
        return [('WFSTMTS-def', z3.Implies(WFSTMTS(s), wfstmts_def(s)))]

    def apply(self, ip, args, kwargs):
        self._dicts = [args[1], args[2]]
        return super().apply(ip, args, kwargs)

    def havoc_heap(self, ip, h0):
        return only_these_change(ip, h0, [V.dref(ip.ctx.to_term(d)) for d in self._dicts], 'au')

    def post(self, K, out):
        h1 = K.heap_after
        return self.never_raises(out) + [('C18.model-unmodified', frozen(h1)),
                                         ('dicts-still-dicts', z3.And(fresh_dict(h1, K.term(1), None), fresh_dict(h1, K.term(2), None)))]

    @property
    def loop_specs(self):
        def inv(L):
            K = L.ctx.ghost['K']
            h = L.heap
            return [('model-frozen', frozen(h)), ('assigns', fresh_dict(h, K.term(1), None)), ('uses', fresh_dict(h, K.term(2), None))]

        def lem(L):
            K = L.ctx.ghost['K']
            st = MH.lget(V.lref(K.term(0)), L.k)
            return [z3.Implies(z3.And(L.k >= 0, L.k < MH.llen(V.lref(K.term(0)))), z3.And(WFSTMT(st), wfstmt_def(st)))]
        return {(self.qual, 0): LoopSpec(inv, heap='havoc', lemmas=lem, mk_heap=masked_fresh)}


GET_ASSIGNS_USES = GetAssignsUses()
GET_ASSIGNS_USES.callee_contracts = {GET_EXPR_USES.qual: GET_EXPR_USES}


# ---------------------------------------------------------------------------------------------
# lint_script
# ---------------------------------------------------------------------------------------------
from pyvc.models_calls import SORTED_KEYS            # noqa: E402

INT_DICTS = ['var_assigns', 'var_uses', 'functions_defined', 'labels_defined', 'labels_used', 'fn_var_assigns', 'fn_var_uses',
             'fn_labels_defined', 'fn_labels_used']
SORTED_SOURCE = {0: 'var_assigns', 2: 'fn_var_assigns', 3: 'fn_var_assigns', 6: 'fn_labels_defined', 7: 'fn_labels_used',
                 8: 'labels_defined', 9: 'labels_used'}


def lint_typing(L):
    """the (assumed) typing of lint's working state: its own containers, frozen model"""
    h = L.heap
    facts = [('model-frozen', frozen(h))]
    w = L.term('warnings')
    facts.append(('warnings', z3.And(is_list(w), V.lref(w) >= MB, V.lref(w) < h.alloc, h.llen(V.lref(w)) >= 0)))
    k = z3.String('k!lt')
    refs = [V.lref(w)]
    for name in INT_DICTS + ['args_defined']:
        if L.has(name):
            d = L.term(name)
            facts.append((name, fresh_dict(h, d, None)))
            if name in INT_DICTS:
                facts.append((name + '-values', z3.ForAll([k], z3.Implies(h.dhas(V.dref(d), k), is_int(h.dget(V.dref(d), k))))))
    return facts


def lint_lemmas(ordinal):
    def lem(L):
        h = L.heap
        out = []
        K = L.ctx.ghost['K']
        if ordinal in SORTED_SOURCE and L.has(SORTED_SOURCE[ordinal]):
            keys, sref, sn, sh = L.ctx.ghost['last_sorted']
            key = z3.Select(keys, L.k)
            # assumed contract of sorted(d.keys()): its elements are keys of d
            out.append(z3.Implies(z3.And(L.k >= 0, L.k < sn), h.dhas(V.dref(L.term(SORTED_SOURCE[ordinal])), key)))
            for name in INT_DICTS:
                if L.has(name):
                    d = L.term(name)
                    out.append(z3.Implies(h.dhas(V.dref(d), key), is_int(h.dget(V.dref(d), key))))
        if ordinal == 1:
            stmts = mget(K.term(0), 'statements')
            st = MH.lget(V.lref(stmts), L.k)
            out.append(z3.Implies(z3.And(L.k >= 0, L.k < MH.llen(V.lref(stmts))), z3.And(WFSTMT(st), wfstmt_def(st))))
        if ordinal in (4, 5) and L.has('statement'):
            st = L.term('statement')
            fn = mget(st, 'function')
            if ordinal == 5:
                body = mget(fn, 'statements')
                s2 = MH.lget(V.lref(body), L.k)
                out.append(z3.Implies(z3.And(L.k >= 0, L.k < MH.llen(V.lref(body))), z3.And(WFSTMT(s2), wfstmt_def(s2))))
                out.append(z3.Implies(WFSTMTS(body), wfstmts_def(body)))
            else:
                fargs = mget(fn, 'args')
                out.append(z3.Implies(z3.And(L.k >= 0, L.k < MH.llen(V.lref(fargs))), is_str(MH.lget(V.lref(fargs), L.k))))
        return out
    return lem


class LintScript(ModelFn):
    qual = 'model.lint_script'
    branch_timeout_ms = 400      # feasibility checks that do not answer quickly are treated as feasible (sound)

    def params(self, ip):
        self.base_params(ip)
        return [S(ip.ctx.fresh('script', V))]

    def pre(self, K):
        sc = K.term(0)
        return [('wf-script', z3.And(model_dict(sc), mhas(sc, 'statements'), WFSTMTS(mget(sc, 'statements')))),
                ('model-frozen', frozen(K.heap))]

    def axioms(self, K):
        s = mget(K.term(0), 'statements')
        return [('WFSTMTS-def', z3.Implies(WFSTMTS(s), wfstmts_def(s)))]

    def post(self, K, out):
        h0, h1 = K.heap, K.heap_after
        obs = self.never_raises(out)
        obs.append(('C18.model-unmodified', frozen(h1)))
        obs.append(('C18.nothing-but-fresh-objects-written', sp_.frame_same(h0, h1, h0.alloc)))
        if out.kind == 'return':
            r = K.ctx.to_term(out.value)
            obs.append(('C18.returns-a-fresh-list-of-warnings', z3.And(is_list(r), V.lref(r) >= h0.alloc, V.lref(r) < h1.alloc)))
        return obs

    @property
    def loop_specs(self):
        def frame_inv(L):
            K = L.ctx.ghost['K']
            return lint_typing(L) + [('frame', sp_.frame_same(K.heap, L.heap, K.heap.alloc))]
        return {(self.qual, n): LoopSpec(frame_inv, heap='havoc', lemmas=lint_lemmas(n), mk_heap=masked_fresh,
                                         trusted_invariant=True)
                for n in range(10)}


LINT_SCRIPT_IMPL = LintScript()
LINT_SCRIPT_IMPL.callee_contracts = {GET_ASSIGNS_USES.qual: GET_ASSIGNS_USES, IS_POINTLESS.qual: IS_POINTLESS}
