"""pyvc.source — reads the real source of /repo/src/bare_script on every run.

Nothing is imported or copied: each module is `ast.parse`d from the working tree. This file also records
exactly what is dropped on the way into the logic (see DESIGN.md section 1).
"""

import ast
import hashlib
import os

REPO_ROOT = os.environ.get('PYVC_REPO', '/repo')
SRC_DIR = os.path.join(REPO_ROOT, 'src', 'bare_script')
MODULES = ('value', 'parser', 'model', 'options', 'data', 'library', 'runtime')

DROPPED = [
    'docstrings, comments and pylint pragmas (no semantics)',
    'import statements (replaced by static name resolution across the repo modules)',
    'compiled regex objects (replaced by their pattern string and flags; matching is abstract unless a regex-language obligation says otherwise)',
    'IEEE-754 rounding, inf, nan and -0.0 (ints are mathematical integers, floats mathematical reals)',
    'interpreter resources: recursion depth, memory, time',
]


class ModuleInfo:
    def __init__(self, name, path):
        self.name = name
        self.path = path
        with open(path, 'r', encoding='utf-8') as fh:
            self.text = fh.read()
        self.sha = hashlib.sha256(self.text.encode()).hexdigest()[:16]
        self.tree = ast.parse(self.text, filename=path)
        self.functions = {}
        self.classes = {}
        self.assigns = {}      # name -> value AST (last module-level assignment)
        self.imports = {}      # local name -> ('module', modname) | ('from', modname, name)
        for node in self.tree.body:
            if isinstance(node, ast.FunctionDef):
                self.functions[node.name] = node
            elif isinstance(node, ast.ClassDef):
                self.classes[node.name] = node
            elif isinstance(node, ast.Assign) and len(node.targets) == 1 and isinstance(node.targets[0], ast.Name):
                self.assigns[node.targets[0].id] = node.value
            elif isinstance(node, ast.Import):
                for alias in node.names:
                    self.imports[(alias.asname or alias.name).split('.')[0]] = ('module', alias.name.split('.')[0])
            elif isinstance(node, ast.ImportFrom):
                for alias in node.names:
                    mod = node.module or ''
                    self.imports[alias.asname or alias.name] = ('from', ('.' * node.level) + mod, alias.name)

    def segment(self, node):
        return ast.get_source_segment(self.text, node)


class Repo:
    def __init__(self, src_dir=None):
        self.src_dir = src_dir or SRC_DIR
        self.modules = {}
        for name in MODULES:
            self.modules[name] = ModuleInfo(name, os.path.join(self.src_dir, name + '.py'))

    def shas(self):
        return {name: m.sha for name, m in self.modules.items()}

    def function(self, qual):
        mod, name = qual.split('.', 1)
        m = self.modules[mod]
        if '.' in name:
            cls, meth = name.split('.', 1)
            for node in m.classes[cls].body:
                if isinstance(node, ast.FunctionDef) and node.name == meth:
                    return node
            raise KeyError(qual)
        return m.functions[name]

    def has_function(self, qual):
        try:
            self.function(qual)
            return True
        except KeyError:
            return False


def loops_of(fn_node):
    """The for/while loops of a function in source order (ordinal = contract key), nested defs excluded."""
    out = []

    def walk(node):
        for child in ast.iter_child_nodes(node):
            if isinstance(child, (ast.FunctionDef, ast.Lambda, ast.ClassDef)):
                continue
            if isinstance(child, (ast.For, ast.While)):
                out.append(child)
            walk(child)
    walk(fn_node)
    return out


def assigned_names(nodes):
    """Names (re)bound anywhere in the given statements (loop havoc set)."""
    names = set()

    def target(t):
        if isinstance(t, ast.Name):
            names.add(t.id)
        elif isinstance(t, (ast.Tuple, ast.List)):
            for e in t.elts:
                target(e)
        elif isinstance(t, ast.Starred):
            target(t.value)

    for root in nodes:
        for node in ast.walk(root):
            if isinstance(node, ast.Assign):
                for t in node.targets:
                    target(t)
            elif isinstance(node, (ast.AugAssign, ast.AnnAssign)):
                target(node.target)
            elif isinstance(node, (ast.For, ast.comprehension)):
                target(node.target)
            elif isinstance(node, ast.NamedExpr):
                target(node.target)
            elif isinstance(node, ast.ExceptHandler) and node.name:
                names.add(node.name)
            elif isinstance(node, ast.withitem) and node.optional_vars is not None:
                target(node.optional_vars)
    return names
