"""pyvc.models — aggregation of the operation models used by the interpreter."""
from .models_ops import *            # noqa: F401,F403
from .models_ops import binop, compare, subscript, store_subscript, delete_subscript, unpack, concrete_items, \
    iteration, key_term, norm
from .models_calls import BUILTIN_NAMES, call_builtin, call_ext, call_method, call_value, call_modattr, getattr, \
    fstring, comprehension, dict_merge, eval_module_const, TRUSTED
from .models_loops import inductive_loop, apply_contract, LoopSpec
