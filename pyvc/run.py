"""pyvc.run — verifies contracts against the real source: explore paths, discharge obligations, concretise
counter-models."""
import multiprocessing as mp
import os
import sys
import time
import traceback
import z3

from .source import Repo
from .interp import Engine, Config, OutOfReach
from .contract import verify_run, case_coverage_run
from .solve import run_cvc5
from . import models_calls
from .concretize import concretize_inputs

Z3_TIMEOUT_MS = int(os.environ.get('PYVC_Z3_TIMEOUT_MS', '10000'))


def discharge(ob, timeout_ms, use_cvc5=True):
    t0 = time.time()
    s = z3.Solver()
    s.set('timeout', timeout_ms)
    for f in ob.pc:
        s.add(f)
    s.add(z3.Not(ob.goal))
    # hard wall-clock guard: z3 does not always honour its own timeout inside quantifier instantiation
    import threading
    timer = threading.Timer(timeout_ms / 1000.0 + 2.0, s.ctx.interrupt)
    timer.start()
    try:
        r = s.check()
    except z3.Z3Exception:
        r = z3.unknown
    finally:
        timer.cancel()
    # z3 sometimes gives up at once on a query it proves in milliseconds on the next run ("incomplete (theory array)" after a
    # candidate model it cannot confirm under quantifiers): an early `unknown` is retried with other seeds — an `unsat`
    # from any run is sound, so this only removes flakiness
    retry = 0
    while r == z3.unknown and retry < 3 and time.time() - t0 < min(5.0, timeout_ms / 2000.0):
        retry += 1
        s = z3.Solver()
        s.set('timeout', timeout_ms)
        s.set('random_seed', 7 * retry)
        for f in ob.pc:
            s.add(f)
        s.add(z3.Not(ob.goal))
        timer = threading.Timer(timeout_ms / 1000.0 + 2.0, s.ctx.interrupt)
        timer.start()
        try:
            r = s.check()
        except z3.Z3Exception:
            r = z3.unknown
        finally:
            timer.cancel()
    backend = 'z3'
    model = None
    reason = ''
    verdict = str(r)
    if r == z3.sat:
        model = s.model()
    elif r == z3.unknown:
        try:
            reason = s.reason_unknown()
        except z3.Z3Exception:
            reason = 'interrupted'
        text = s.to_smt2() if use_cvc5 else ''
        if use_cvc5 and '(lambda' not in text:
            r5, out = run_cvc5(text, timeout_ms)
            if r5 == 'unsat':
                verdict, backend = 'unsat', 'cvc5'
            elif r5 == 'sat':
                verdict, backend, reason = 'sat-no-model', 'cvc5', out[:1500]
            else:
                backend = 'z3+cvc5'
                reason += ' | cvc5: ' + out[:200]
    if verdict == 'unknown':
        # refutation attempt: drop the quantified assumptions (a weaker path condition); a model found this way is only
        # a candidate — it counts as a violation only if the native replay reproduces the contract breach
        from .interp import has_quantifier
        s2 = z3.Solver()
        s2.set('timeout', min(timeout_ms, 5000))
        for f in ob.pc:
            if not has_quantifier(f):
                s2.add(f)
        s2.add(z3.Not(ob.goal))
        timer = threading.Timer(7.0, s2.ctx.interrupt)
        timer.start()
        try:
            r2 = s2.check()
        except z3.Z3Exception:
            r2 = z3.unknown
        finally:
            timer.cancel()
        if r2 == z3.sat:
            try:
                return 'sat-weakened', backend, time.time() - t0, s2.model(), reason
            except z3.Z3Exception:
                pass
    return verdict, backend, time.time() - t0, model, reason


def _nicer_model(ob, res, model):
    """A second counter-model of the same obligation whose datetime arguments are ordinary values (1970-2096, whole-hour
    offsets), so that the native driver can build them; the first model is kept when there is none."""
    try:
        K = res.ghost.get('K') if res is not None else None
        if K is None:
            return model
        from .core import is_date, V as _V
        prefs = []
        for a in K.args:
            t = K.ctx.to_term(a)
            if not z3.is_expr(t) or t.sort() != _V:
                continue
            prefs.append(z3.Implies(is_date(t), z3.And(_V.us(t) >= 0, _V.us(t) <= 4 * 10**15, _V.off(t) % 3600000000 == 0,
                                                       _V.off(t) >= -12 * 3600000000, _V.off(t) <= 12 * 3600000000)))
        if not prefs:
            return model
        s = z3.Solver()
        s.set('timeout', 3000)
        for f in ob.pc:
            s.add(f)
        s.add(z3.Not(ob.goal))
        s.add(*prefs)
        import threading
        timer = threading.Timer(5.0, s.ctx.interrupt)
        timer.start()
        try:
            r = s.check()
        finally:
            timer.cancel()
        if r == z3.sat:
            return s.model()
    except z3.Z3Exception:
        pass
    return model


PAR_THRESHOLD = int(os.environ.get('PYVC_PAR_THRESHOLD', '400'))
PAR_PROCS = int(os.environ.get('PYVC_PAR_PROCS', '8'))


def _forked_entries(items, entry_for):
    """Large obligation sets (one function case with hundreds of paths) are discharged by forked helpers, which inherit the
    formulas and the path results; each helper builds the complete JSON-able report entries of its share (verdict, solver,
    concretised counter-model inputs), so nothing solver-side has to cross the process boundary."""
    if len(items) < PAR_THRESHOLD or PAR_PROCS < 2:
        return {}
    import json as _json
    kids = []
    for k in range(PAR_PROCS):
        r, w = os.pipe()
        pid = os.fork()
        if pid == 0:
            code = 0
            try:
                os.close(r)
                out = {}
                for ix in range(k, len(items), PAR_PROCS):
                    out[ix] = entry_for(*items[ix])
                with os.fdopen(w, 'w') as fh:
                    _json.dump(out, fh, default=str)
            except BaseException:
                code = 1
            finally:
                os._exit(code)
        os.close(w)
        kids.append((pid, r))
    res = {}
    for pid, r in kids:
        with os.fdopen(r, 'r') as fh:
            data = fh.read()
        os.waitpid(pid, 0)
        if data:
            try:
                res.update({int(k): v for k, v in _json.loads(data).items()})
            except Exception:
                pass
    return res


def verify_contract(contract, cfg, timeout_ms=None, max_paths=None, case=None):
    """Returns a JSON-able report for one function under contract (or one case of its case split; case == 'coverage'
    checks that the split is exhaustive)."""
    timeout_ms = timeout_ms or Z3_TIMEOUT_MS
    # path budget per function case: the largest case of the unchanged tree explores 230 paths in the quick tier; a function
    # that needs more after a change is reported out of reach (bounded stand-ins take over) instead of running for hours
    max_paths = max_paths or int(os.environ.get('PYVC_MAX_PATHS', '1500'))
    t0 = time.time()
    repo = Repo()
    models_calls.TRUSTED.clear()
    engine = Engine(repo, cfg)
    label = '' if case is None else ('#' + (case if isinstance(case, str) else case[0]))
    report = {'function': contract.qual, 'case': label, 'obligations': [], 'paths': 0, 'out_of_reach': None,
              'bounded': False, 'path_kinds': {}}
    try:
        if case == 'coverage':
            results = engine.explore(case_coverage_run(contract), max_paths=max_paths)
        else:
            results = engine.explore(verify_run(contract, case), max_paths=max_paths)
    except OutOfReach as e:
        report['out_of_reach'] = str(e)
        if os.environ.get('PYVC_DEBUG'):
            traceback.print_exc()
        report['wall_s'] = time.time() - t0
        return report
    except Exception as e:  # engine failure: reported as a checker error, never as a violation
        report['error'] = ''.join(traceback.format_exception(type(e), e, e.__traceback__))[-3000:]
        report['wall_s'] = time.time() - t0
        return report
    report['paths'] = len(results)
    report['explore_s'] = time.time() - t0
    by_prefix = {}
    for r in results:
        report['path_kinds'][r.kind] = report['path_kinds'].get(r.kind, 0) + 1
        if r.bounded:
            report['bounded'] = True
        by_prefix[tuple(r.decisions)] = r
    def entry_for(key, ob):
        verdict, backend, secs, model, reason = discharge(ob, timeout_ms)
        entry = {'name': ob.name, 'verdict': verdict, 'backend': backend, 'secs': round(secs, 4),
                 'kind': ob.meta.get('kind', ''), 'path': ''.join('T' if d else 'F' for d in key[0])}
        if verdict in ('sat', 'sat-weakened') and model is not None:
            # find a path result that extends this obligation's prefix, for the harness inputs
            res = None
            for dec, r in by_prefix.items():
                if dec[:len(key[0])] == key[0]:
                    res = r
                    break
            if verdict == 'sat':
                model = _nicer_model(ob, res, model)
            try:
                entry['inputs'] = concretize_inputs(contract, model, res)
            except Exception as e:  # pragma: no cover
                entry['inputs_error'] = f'{type(e).__name__}: {e}'
        if verdict not in ('unsat', 'sat'):
            entry['reason'] = reason
        return entry

    items = list(engine.obligations.items())
    entries = _forked_entries(items, entry_for)
    solver_s = 0.0
    for ix, (key, ob) in enumerate(items):
        entry = entries.get(ix)
        if entry is None:
            entry = entry_for(key, ob)
        solver_s += entry['secs']
        report['obligations'].append(entry)
    report['solver_s'] = round(solver_s, 3)
    report['wall_s'] = round(time.time() - t0, 3)
    report['trusted'] = sorted(models_calls.TRUSTED)
    report['stats'] = dict(engine.stats)
    return report


CACHE_DIR = os.path.join(os.path.dirname(os.path.dirname(os.path.abspath(__file__))), '.cache')
_TREE_KEY = None


def tree_key():
    """hash of everything a function report depends on: the repo sources and the verifier's own files"""
    global _TREE_KEY
    if _TREE_KEY is None:
        import hashlib
        h = hashlib.sha256()
        root = os.path.dirname(os.path.dirname(os.path.abspath(__file__)))
        files = []
        for sub in ('pyvc', 'contracts', 'props', 'native'):
            for dp, _, fns in os.walk(os.path.join(root, sub)):
                files += [os.path.join(dp, f) for f in fns if f.endswith('.py')]
        from .source import SRC_DIR
        for dp, _, fns in os.walk(SRC_DIR):
            files += [os.path.join(dp, f) for f in fns if f.endswith(('.py', '.bare'))]
        for f in sorted(files):
            h.update(f.encode())
            with open(f, 'rb') as fh:
                h.update(fh.read())
        _TREE_KEY = h.hexdigest()
    return _TREE_KEY


_SHARED = {}


def _job_ix(args):
    """pool entry point: contracts and the config factory are inherited through fork (they hold closures)"""
    ix, timeout_ms, case = args
    return _job((_SHARED['contracts'][ix], _SHARED['cfg_factory'], timeout_ms, case))


def _job(args):
    contract, cfg_factory, timeout_ms, case = args
    import hashlib
    import json
    label = 'none' if case is None else str(case)
    # two contracts may cover the same function under complementary preconditions (arraySort default/custom order,
    # arrayIndexOf value/match function): the report is keyed by the contract, not only by the function
    who = f'{type(contract).__module__}.{type(contract).__name__}:{getattr(contract, "script_name", "")}'
    key = hashlib.sha256(f'{tree_key()}|{contract.qual}|{who}|{label}|{timeout_ms}'.encode()).hexdigest()[:32]
    path = os.path.join(CACHE_DIR, key + '.json')
    use_cache = not os.environ.get('PYVC_NOCACHE')

    def cached():
        if use_cache and os.path.exists(path):
            try:
                with open(path, 'r', encoding='utf-8') as fh:
                    rep = json.load(fh)
                rep['cached'] = True
                return rep
            except (OSError, ValueError):
                pass
        return None
    rep = cached()
    if rep is not None:
        return rep
    os.makedirs(CACHE_DIR, exist_ok=True)
    # checks started side by side (several properties share the runtime contracts) must not compute the same report twice:
    # the first process to take the report's lock computes it, the others wait and read the cache
    import fcntl
    lock = open(path + '.lock', 'w')            # pylint: disable=consider-using-with
    try:
        fcntl.flock(lock, fcntl.LOCK_EX)
        rep = cached()
        if rep is not None:
            return rep
        slot = _take_slot()
        try:
            cfg = cfg_factory(contract)
            if case is not None and case != 'coverage':
                case = contract.cases()[case]
            rep = verify_contract(contract, cfg, timeout_ms, case=case)
            if use_cache and not rep.get('error'):
                tmp = path + f'.{os.getpid()}.tmp'
                with open(tmp, 'w', encoding='utf-8') as fh:
                    json.dump(rep, fh, default=str)
                os.replace(tmp, path)
            return rep
        finally:
            if slot is not None:
                slot.close()
    finally:
        lock.close()


SLOTS = int(os.environ.get('PYVC_SLOTS', str(os.cpu_count() or 16)))


def _take_slot():
    """A machine-wide budget of verification processes (one advisory file lock per core under .cache/slots): however many
    checks are started at once, about as many solver processes run as there are cores, so the wall-clock solver budgets
    mean the same thing under load. Returns the open lock file (closing it frees the slot)."""
    import fcntl
    d = os.path.join(CACHE_DIR, 'slots')
    os.makedirs(d, exist_ok=True)
    start = os.getpid() % SLOTS
    while True:
        for k in range(SLOTS):
            fh = open(os.path.join(d, f'{(start + k) % SLOTS}'), 'w')     # pylint: disable=consider-using-with
            try:
                fcntl.flock(fh, fcntl.LOCK_EX | fcntl.LOCK_NB)
                return fh
            except OSError:
                fh.close()
        time.sleep(0.25)


def verify_many(contracts, cfg_factory, timeout_ms=None, workers=None, include_slow=False):
    jobs = []
    skipped = []
    for c in contracts:
        cases = c.cases() if hasattr(c, 'cases') else None
        if cases:
            jobs.append((c, cfg_factory, timeout_ms, 'coverage'))
            for ix in range(len(cases)):
                if (not include_slow or not os.environ.get('PYVC_EXPERIMENTAL_CASES')) and cases[ix][0] in getattr(c, 'slow_cases', ()):
                    skipped.append({'function': c.qual, 'case': '#' + cases[ix][0], 'obligations': [], 'paths': 0,
                                    'out_of_reach': 'case outside the registered tiers (not proved): ' + getattr(c, 'slow_reason', 'path exploration takes tens of minutes')})
                    continue
                jobs.append((c, cfg_factory, timeout_ms, ix))
        else:
            jobs.append((c, cfg_factory, timeout_ms, None))
    workers = workers or min(16, os.cpu_count() or 4, max(1, len(jobs)))
    if workers == 1:
        return [_job(j) for j in jobs] + skipped
    _SHARED['contracts'] = list(contracts)
    _SHARED['cfg_factory'] = cfg_factory
    ix_of = {id(c): i for i, c in enumerate(contracts)}
    ijobs = [(ix_of[id(c)], t, case) for c, _, t, case in jobs]
    return _run_jobs(ijobs, workers) + skipped


JOB_BUDGET_S = int(os.environ.get('PYVC_JOB_BUDGET_S', '900'))


def _run_jobs(ijobs, workers):
    """One forked child per job, at most `workers` at a time; results come back as JSON files. A child that dies on a signal
    (z3 has been seen to crash in incremental string solving) is retried once; a second death is a checker error for that
    function, never a verdict — and never a hang, which is what a process pool does when a worker disappears."""
    import json
    import shutil
    import tempfile
    os.makedirs(CACHE_DIR, exist_ok=True)
    tmpdir = tempfile.mkdtemp(prefix='jobs-', dir=CACHE_DIR)
    results = [None] * len(ijobs)
    pending = list(range(len(ijobs)))
    attempts = [0] * len(ijobs)
    running = {}
    started = {}
    killed = set()
    try:
        while pending or running:
            while pending and len(running) < workers:
                ix = pending.pop(0)
                path = os.path.join(tmpdir, f'{ix}.json')
                if os.path.exists(path):
                    os.unlink(path)
                sys.stdout.flush()
                sys.stderr.flush()
                pid = os.fork()
                if pid == 0:
                    code = 0
                    try:
                        rep = _job_ix(ijobs[ix])
                        with open(path + '.tmp', 'w', encoding='utf-8') as fh:
                            json.dump(rep, fh, default=str)
                        os.replace(path + '.tmp', path)
                    except BaseException:  # pylint: disable=broad-except
                        traceback.print_exc()
                        code = 1
                    finally:
                        os._exit(code)
                running[pid] = ix
                started[pid] = time.time()
            pid, status = os.waitpid(-1, os.WNOHANG)
            if pid == 0:
                # nobody finished: enforce the wall-clock budget of a single job (a changed function can make the path
                # exploration explode; the unchanged tree's longest job takes about 200 s)
                now = time.time()
                for p_, ix_ in list(running.items()):
                    if now - started[p_] > JOB_BUDGET_S and p_ not in killed:
                        killed.add(p_)
                        try:
                            os.kill(p_, 9)
                        except OSError:
                            pass
                time.sleep(0.2)
                continue
            if pid not in running:
                continue
            ix = running.pop(pid)
            if pid in killed:
                cix, _t, case = ijobs[ix]
                c = _SHARED['contracts'][cix]
                label = '' if case is None else ('#' + (case if isinstance(case, str) else c.cases()[case][0]))
                results[ix] = {'function': c.qual, 'case': label, 'obligations': [], 'paths': 0, 'bounded': False, 'path_kinds': {},
                               'out_of_reach': f'path exploration and discharge exceeded the job budget of {JOB_BUDGET_S} s'}
                continue
            path = os.path.join(tmpdir, f'{ix}.json')
            if os.WIFEXITED(status) and os.WEXITSTATUS(status) == 0 and os.path.exists(path):
                with open(path, encoding='utf-8') as fh:
                    results[ix] = json.load(fh)
                continue
            attempts[ix] += 1
            if attempts[ix] < 3:
                pending.insert(0, ix)
                continue
            cix, _t, case = ijobs[ix]
            c = _SHARED['contracts'][cix]
            label = '' if case is None else ('#' + (case if isinstance(case, str) else c.cases()[case][0]))
            why = f'signal {os.WTERMSIG(status)}' if os.WIFSIGNALED(status) else f'exit status {os.WEXITSTATUS(status)}'
            results[ix] = {'function': c.qual, 'case': label, 'obligations': [], 'paths': 0, 'out_of_reach': None, 'bounded': False,
                           'path_kinds': {}, 'error': f'verification worker died three times ({why})'}
    finally:
        shutil.rmtree(tmpdir, ignore_errors=True)
    return results
