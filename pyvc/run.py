"""pyvc.run — verifies contracts against the real source: explore paths, discharge obligations, concretise
counter-models."""
import multiprocessing as mp
import os
import time
import traceback
import z3

from .source import Repo
from .interp import Engine, Config, OutOfReach
from .contract import verify_run
from .solve import run_cvc5
from . import models_calls
from .concretize import concretize_inputs

Z3_TIMEOUT_MS = int(os.environ.get('PYVC_Z3_TIMEOUT_MS', '10000'))


def discharge(ob, timeout_ms, use_cvc5=True):
    t0 = time.time()
    s = z3.Solver()
    s.set('timeout', timeout_ms)
    for f in ob.pc:
        s.add(f)
    s.add(z3.Not(ob.goal))
    r = s.check()
    backend = 'z3'
    model = None
    reason = ''
    verdict = str(r)
    if r == z3.sat:
        model = s.model()
    elif r == z3.unknown:
        reason = s.reason_unknown()
        if use_cvc5:
            r5, out = run_cvc5(s.to_smt2(), timeout_ms)
            if r5 == 'unsat':
                verdict, backend = 'unsat', 'cvc5'
            elif r5 == 'sat':
                verdict, backend, reason = 'sat-no-model', 'cvc5', out[:1500]
            else:
                backend = 'z3+cvc5'
                reason += ' | cvc5: ' + out[:200]
    return verdict, backend, time.time() - t0, model, reason


def verify_contract(contract, cfg, timeout_ms=None, max_paths=4000):
    """Returns a JSON-able report for one function under contract."""
    timeout_ms = timeout_ms or Z3_TIMEOUT_MS
    t0 = time.time()
    repo = Repo()
    models_calls.TRUSTED.clear()
    engine = Engine(repo, cfg)
    report = {'function': contract.qual, 'obligations': [], 'paths': 0, 'out_of_reach': None, 'bounded': False,
              'path_kinds': {}}
    try:
        results = engine.explore(verify_run(contract), max_paths=max_paths)
    except OutOfReach as e:
        report['out_of_reach'] = str(e)
        report['wall_s'] = time.time() - t0
        return report
    except Exception as e:  # engine failure: reported as a checker error, never as a violation
        report['error'] = ''.join(traceback.format_exception(type(e), e, e.__traceback__))[-3000:]
        report['wall_s'] = time.time() - t0
        return report
    report['paths'] = len(results)
    report['explore_s'] = time.time() - t0
    by_prefix = {}
    for r in results:
        report['path_kinds'][r.kind] = report['path_kinds'].get(r.kind, 0) + 1
        if r.bounded:
            report['bounded'] = True
        by_prefix[tuple(r.decisions)] = r
    solver_s = 0.0
    for key, ob in engine.obligations.items():
        verdict, backend, secs, model, reason = discharge(ob, timeout_ms)
        solver_s += secs
        entry = {'name': ob.name, 'verdict': verdict, 'backend': backend, 'secs': round(secs, 4),
                 'kind': ob.meta.get('kind', ''), 'path': ''.join('T' if d else 'F' for d in key[0])}
        if verdict == 'sat' and model is not None:
            # find a path result that extends this obligation's prefix, for the harness inputs
            res = None
            for dec, r in by_prefix.items():
                if dec[:len(key[0])] == key[0]:
                    res = r
                    break
            try:
                entry['inputs'] = concretize_inputs(contract, model, res)
            except Exception as e:  # pragma: no cover
                entry['inputs_error'] = f'{type(e).__name__}: {e}'
        if verdict not in ('unsat', 'sat'):
            entry['reason'] = reason
        report['obligations'].append(entry)
    report['solver_s'] = round(solver_s, 3)
    report['wall_s'] = round(time.time() - t0, 3)
    report['trusted'] = sorted(models_calls.TRUSTED)
    report['stats'] = dict(engine.stats)
    return report


def _job(args):
    contract, cfg_factory, timeout_ms = args
    cfg = cfg_factory(contract)
    return verify_contract(contract, cfg, timeout_ms)


def verify_many(contracts, cfg_factory, timeout_ms=None, workers=None):
    workers = workers or min(16, os.cpu_count() or 4, max(1, len(contracts)))
    jobs = [(c, cfg_factory, timeout_ms) for c in contracts]
    if workers == 1:
        return [_job(j) for j in jobs]
    with mp.get_context('fork').Pool(workers) as pool:
        return pool.map(_job, jobs, chunksize=1)
