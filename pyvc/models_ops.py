"""pyvc.models_ops — operator, subscript and container models (the CPython operation models of DESIGN.md 3.3).

Each model has may-raise conditions; a `TypeError`/`IndexError`/... is produced exactly when CPython raises it
(for the value kinds the logic distinguishes).
"""

import z3

from .core import (
    V, VNone, VBool, VInt, VFloat, VStr, VList, VDict, VDate, VFunc, VOther,
    is_none, is_bool, is_int, is_float, is_str, is_list, is_dict, is_date, is_func, is_regex, is_other,
    Str, Int, Real, Bool, ArrIntV, Heap, numval, intval, trunc, p_isinstance_number, p_isinstance_int,
    Val, C, S, B, I, R, T, Obj, conc_to_term, is_t, is_f)
from .interp import PyRaise, OutOfReach, make_exc, PathEnd

# uninterpreted operations shared by code and specifications
POW = z3.Function('POW', Real, Real, Real)
FLOAT_MAX_INT = z3.IntVal(2 ** 1024 - 2 ** 970)
DBL_MAX_R = z3.RealVal(2 ** 1024 - 2 ** 971)
DATE_MIN_US = z3.IntVal(-62135596800 * 10 ** 6)
DATE_MAX_US = z3.IntVal(253402300800 * 10 ** 6 - 1)
STR_OF_INT = z3.Function('STR_OF_INT', Int, Str)
STR_OF_REAL = z3.Function('STR_OF_REAL', Real, Str)
STR_LT = None  # native z3 string order is used
STR_REPEAT = z3.Function('STR_REPEAT', Str, Int, Str)
DEEPEQ = z3.Function('DEEPEQ', V, V, Bool)


def raise_(cls, msg=''):
    raise PyRaise(make_exc(cls, [C(msg)]))


def py_type_name(val):
    return type(val).__name__


# ---------------------------------------------------------------------------------------------
# normalisation
# ---------------------------------------------------------------------------------------------

def norm(ip, val):
    """Simplify symbolic wrappers: S(VInt(x)) -> I(x) etc. when the constructor is syntactically known."""
    if isinstance(val, S):
        t = z3.simplify(val.t)
        if z3.is_app(t) and t.decl().kind() == z3.Z3_OP_DT_CONSTRUCTOR:
            name = t.decl().name()
            if name == 'VNone':
                return C(None)
            if name == 'VBool':
                a = t.arg(0)
                if is_t(a):
                    return C(True)
                if is_f(a):
                    return C(False)
                return B(a)
            if name == 'VInt':
                a = t.arg(0)
                if z3.is_int_value(a):
                    return C(a.as_long())
                return I(a)
            if name == 'VFloat':
                return R(t.arg(0))
            if name == 'VStr':
                a = t.arg(0)
                if z3.is_string_value(a):
                    return C(a.as_string())
                return T(a)
        return S(t)
    return val


def to_S(ip, val):
    return S(ip.ctx.to_term(val))


def is_symbolic(val):
    return isinstance(val, (S, B, I, R, T))


def kind_of(ip, val):
    """Static kind when known: 'none','bool','int','float','str','list','dict','date','func', or None."""
    if isinstance(val, C):
        py = val.py
        if py is None:
            return 'none'
        if isinstance(py, bool):
            return 'bool'
        if isinstance(py, int):
            return 'int'
        if isinstance(py, float):
            return 'float'
        if isinstance(py, str):
            return 'str'
        if isinstance(py, (list, tuple)):
            return 'clist'
        if isinstance(py, dict):
            return 'cdict'
        return None
    if isinstance(val, B):
        return 'bool'
    if isinstance(val, I):
        return 'int'
    if isinstance(val, R):
        return 'float'
    if isinstance(val, T):
        return 'str'
    if isinstance(val, S):
        t = val.t
        for name, rec in (('none', is_none), ('bool', is_bool), ('int', is_int), ('float', is_float), ('str', is_str),
                          ('list', is_list), ('dict', is_dict), ('date', is_date), ('func', is_func),
                          ('regex', is_regex), ('other', is_other)):
            if is_t(z3.simplify(rec(t))):
                return name
        return None
    return None


def resolve_kind(ip, val, wanted):
    """Decide (forking if needed) which of the kinds in `wanted` the symbolic value has; returns the kind name or
    'else'."""
    k = kind_of(ip, val)
    if k is not None:
        return k if k in wanted else 'else'
    if not isinstance(val, S):
        return 'else'
    recs = {'none': is_none, 'bool': is_bool, 'int': is_int, 'float': is_float, 'str': is_str, 'list': is_list,
            'dict': is_dict, 'date': is_date, 'func': is_func, 'regex': is_regex, 'other': is_other}
    for name in wanted:
        if ip.ctx.branch(recs[name](val.t)):
            return name
    return 'else'


def str_term(ip, val):
    """z3 String of a value known to be a string"""
    if isinstance(val, C) and isinstance(val.py, str):
        return z3.StringVal(val.py)
    if isinstance(val, T):
        return val.t
    if isinstance(val, S):
        return z3.simplify(V.s(val.t))
    raise OutOfReach(f'string expected: {val!r}')


def key_term(ip, val):
    """dict key: must be a string"""
    if isinstance(val, C) and isinstance(val.py, str):
        return z3.StringVal(val.py)
    if isinstance(val, T):
        return val.t
    if isinstance(val, S):
        if not ip.ctx.must(is_str(val.t)):
            raise OutOfReach('dict key not provably a string')
        return z3.simplify(V.s(val.t))
    raise OutOfReach(f'non-string dict key {val!r}')


def real_term(ip, val):
    """z3 Real of a number-like value (bool/int/float)"""
    if isinstance(val, C):
        if isinstance(val.py, bool):
            return z3.RealVal(int(val.py))
        if isinstance(val.py, int):
            return z3.RealVal(val.py)
        if isinstance(val.py, float):
            return V.r(conc_to_term(val.py))
    if isinstance(val, I):
        return z3.ToReal(val.t)
    if isinstance(val, R):
        return val.t
    if isinstance(val, B):
        return z3.If(val.t, z3.RealVal(1), z3.RealVal(0))
    if isinstance(val, S):
        return z3.simplify(numval(val.t))
    raise OutOfReach(f'number expected: {val!r}')


def numkind(ip, val):
    """'int' (incl. bool), 'float', or None if not a number; may fork"""
    k = kind_of(ip, val)
    if k in ('int', 'bool'):
        return 'int'
    if k == 'float':
        return 'float'
    if k is not None or not isinstance(val, S):
        return None
    r = resolve_kind(ip, val, ('int', 'float', 'bool'))
    if r in ('int', 'bool'):
        return 'int'
    if r == 'float':
        return 'float'
    return None


def int_term(ip, val):
    if isinstance(val, C):
        return z3.IntVal(int(val.py))
    if isinstance(val, I):
        return val.t
    if isinstance(val, B):
        return z3.If(val.t, z3.IntVal(1), z3.IntVal(0))
    if isinstance(val, S):
        return z3.simplify(intval(val.t))
    raise OutOfReach(f'int expected {val!r}')


# ---------------------------------------------------------------------------------------------
# binary operators
# ---------------------------------------------------------------------------------------------

_PYOPS = {
    'Add': lambda a, b: a + b, 'Sub': lambda a, b: a - b, 'Mult': lambda a, b: a * b, 'Div': lambda a, b: a / b,
    'FloorDiv': lambda a, b: a // b, 'Mod': lambda a, b: a % b, 'Pow': lambda a, b: a ** b,
    'BitOr': lambda a, b: a | b,
}


def binop(ip, op, a, b):
    a = norm(ip, a)
    b = norm(ip, b)
    if isinstance(a, C) and isinstance(b, C):
        try:
            r = _PYOPS[op](a.py, b.py)
        except Exception as e:  # the concrete operation raises: so does the program
            raise_(type(e).__name__, str(e))
        if isinstance(r, complex):
            return S(VOther(z3.IntVal(-5)))
        return C(r)
    if op == 'BitOr':
        # regex flag masks: kept abstract
        return Obj('flags', parts=[a, b])
    if isinstance(a, Obj) and isinstance(b, Obj) and a.kind == 'timedelta' and b.kind == 'timedelta':
        x, y = a.f['us'], b.f['us']
        if op in ('FloorDiv', 'Div', 'Mod'):
            if ip.ctx.branch(y == 0):
                raise_('ZeroDivisionError', 'timedelta division by zero')
            if op == 'FloorDiv':
                return norm(ip, I(z3.ToInt(z3.ToReal(x) / z3.ToReal(y))))
            if op == 'Div':
                return R(z3.ToReal(x) / z3.ToReal(y))
        if op in ('Add', 'Sub'):
            return Obj('timedelta', us=z3.simplify(x + y if op == 'Add' else x - y))
    if isinstance(a, Obj) or isinstance(b, Obj):
        known = ('timedelta',)
        if not ((isinstance(a, Obj) and a.kind in known) or (isinstance(b, Obj) and b.kind in known)):
            raise OutOfReach(f'operator {op} on {a!r}, {b!r}')
    merged = merged_num_binop(ip, op, a, b)
    if merged is not None:
        return merged
    ka, kb = numkind(ip, a), numkind(ip, b)
    if ka and kb:
        return num_binop(ip, op, a, b, ka, kb)
    sa = ka or kind_of(ip, a)
    sb = kb or kind_of(ip, b)
    if sa is None and isinstance(a, S):
        sa = resolve_kind(ip, a, ('str', 'list', 'date'))
    if sb is None and isinstance(b, S):
        sb = resolve_kind(ip, b, ('str', 'list', 'date'))
    if op == 'Add' and sa == 'str' and sb == 'str':
        return T(z3.Concat(str_term(ip, a), str_term(ip, b)))
    if op == 'Mult' and sa == 'str' and kb == 'int':
        return T(STR_REPEAT(str_term(ip, a), int_term(ip, b)))
    if op == 'Mult' and sa == 'str' and kb == 'float':
        raise_('TypeError', "can't multiply sequence by non-int of type 'float'")
    if op == 'Add' and sa == 'date' and isinstance(b, Obj) and b.kind == 'timedelta':
        return date_add(ip, a, b.f['us'], 1)
    if op == 'Add' and isinstance(a, Obj) and a.kind == 'timedelta' and sb == 'date':
        return date_add(ip, b, a.f['us'], 1)
    if op == 'Sub' and sa == 'date' and sb == 'date':
        ta, tb = a.t, b.t
        if ip.ctx.branch(V.kind(ta) == V.kind(tb)):
            return Obj('timedelta', us=z3.simplify(V.us(ta) - V.us(tb)))
        if ip.ctx.branch(z3.Or(V.kind(ta) == 0, V.kind(tb) == 0)):
            raise_('TypeError', 'unsupported operand type(s) for -: datetime.date and datetime.datetime')
        raise_('TypeError', "can't subtract offset-naive and offset-aware datetimes")
    if op == 'Add' and sa == 'list' and sb == 'list':
        from .models_calls import list_concat
        return list_concat(ip, a, b)
    raise_('TypeError', f'unsupported operand type(s) for {op}')


def _known_number(ip, v):
    """v is a number (bool/int/float) without its kind being syntactically known"""
    if isinstance(v, S) and kind_of(ip, v) is None:
        return ip.ctx.must(p_isinstance_number(v.t))
    return False


def merged_num_binop(ip, op, a, b):
    """arithmetic on numbers whose int/float kind is not known on this path, without forking on the kind: the result
    is a conditional value (int when both operands are ints, else float), with CPython's exceptions"""
    if op not in ('Add', 'Sub', 'Mult', 'FloorDiv', 'Mod', 'Div'):
        return None
    ua, ub = _known_number(ip, a), _known_number(ip, b)
    if not (ua or ub):
        return None
    for v, u in ((a, ua), (b, ub)):
        if not u and kind_of(ip, v) not in ('int', 'float', 'bool'):
            return None
    ctx = ip.ctx
    ta, tb = ctx.to_term(a), ctx.to_term(b)
    inta, intb = p_isinstance_int(ta), p_isinstance_int(tb)
    bothint = z3.simplify(z3.And(inta, intb))
    x, y = numval(ta), numval(tb)
    ia, ib = intval(ta), intval(tb)
    # int -> float coercion of an int operand next to a float one
    over = z3.Or(z3.And(inta, z3.Not(intb), z3.Or(ia >= FLOAT_MAX_INT, ia <= -FLOAT_MAX_INT)),
                 z3.And(intb, z3.Not(inta), z3.Or(ib >= FLOAT_MAX_INT, ib <= -FLOAT_MAX_INT)))
    if ctx.branch(over):
        raise_('OverflowError', 'int too large to convert to float')
    if op == 'Add':
        return S(z3.If(bothint, VInt(ia + ib), VFloat(x + y)))
    if op == 'Sub':
        return S(z3.If(bothint, VInt(ia - ib), VFloat(x - y)))
    if op == 'Mult':
        return S(z3.If(bothint, VInt(ia * ib), VFloat(x * y)))
    if ctx.branch(y == 0):
        raise_('ZeroDivisionError', 'division by zero')
    if op == 'Div':
        if ctx.branch(z3.And(bothint, z3.Or(ia >= FLOAT_MAX_INT, ia <= -FLOAT_MAX_INT))) and ctx.choice('div_overflow'):
            raise_('OverflowError', 'integer division result too large for a float')
        return R(x / y)
    fl = z3.ToInt(x / y)
    if op == 'FloorDiv':
        return S(z3.If(bothint, VInt(fl), VFloat(z3.ToReal(fl))))
    return S(z3.If(bothint, VInt(ia - fl * ib), VFloat(x - z3.ToReal(fl) * y)))


def num_binop(ip, op, a, b, ka, kb):
    both_int = ka == 'int' and kb == 'int'
    if both_int:
        x, y = int_term(ip, a), int_term(ip, b)
        if op == 'Add':
            return norm(ip, I(x + y))
        if op == 'Sub':
            return norm(ip, I(x - y))
        if op == 'Mult':
            return norm(ip, I(x * y))
        if op in ('FloorDiv', 'Mod'):
            if ip.ctx.branch(y == 0):
                raise_('ZeroDivisionError', 'integer division or modulo by zero')
            # floor(x/y): z3 ToInt is floor
            fl = z3.ToInt(z3.ToReal(x) / z3.ToReal(y))
            if op == 'FloorDiv':
                return norm(ip, I(fl))
            return norm(ip, I(x - fl * y))
        if op == 'Div':
            if ip.ctx.branch(y == 0):
                raise_('ZeroDivisionError', 'division by zero')
            if ip.ctx.branch(z3.Or(x >= FLOAT_MAX_INT, x <= -FLOAT_MAX_INT)) and ip.ctx.choice('div_overflow'):
                raise_('OverflowError', 'integer division result too large for a float')
            return R(z3.ToReal(x) / z3.ToReal(y))
        if op == 'Pow':
            if ip.ctx.branch(z3.And(x == 0, y < 0)):
                raise_('ZeroDivisionError', '0.0 cannot be raised to a negative power')
            if ip.ctx.branch(y >= 0):
                return I(z3.ToInt(POW(z3.ToReal(x), z3.ToReal(y))))
            if ip.ctx.branch(z3.Or(x >= FLOAT_MAX_INT, x <= -FLOAT_MAX_INT)):
                raise_('OverflowError', 'int too large to convert to float')
            p = POW(z3.ToReal(x), z3.ToReal(y))
            if ip.ctx.branch(z3.Or(p > DBL_MAX_R, p < -DBL_MAX_R)):
                raise_('OverflowError', '(34, Numerical result out of range)')
            return R(p)
    # int -> float coercion of the int operand: OverflowError iff it does not fit a double
    for v, kk in ((a, ka), (b, kb)):
        if kk == 'int' and not isinstance(v, C):
            iv = int_term(ip, v)
            if ip.ctx.branch(z3.Or(iv >= FLOAT_MAX_INT, iv <= -FLOAT_MAX_INT)):
                raise_('OverflowError', 'int too large to convert to float')
        elif kk == 'int' and isinstance(v, C) and abs(int(v.py)) >= 2 ** 1024:
            raise_('OverflowError', 'int too large to convert to float')
    x, y = real_term(ip, a), real_term(ip, b)
    if op == 'Add':
        return R(x + y)
    if op == 'Sub':
        return R(x - y)
    if op == 'Mult':
        if ka == 'int' and ip.ctx.cfg.hooks.get('int_to_float_overflow'):
            pass
        return R(x * y)
    if op == 'Div':
        if ip.ctx.branch(y == 0):
            raise_('ZeroDivisionError', 'float division by zero')
        return R(x / y)
    if op in ('FloorDiv', 'Mod'):
        if ip.ctx.branch(y == 0):
            raise_('ZeroDivisionError', 'float modulo')
        fl = z3.ToReal(z3.ToInt(x / y))
        if op == 'FloorDiv':
            return R(fl)
        return R(x - fl * y)
    if op == 'Pow':
        if ip.ctx.branch(z3.And(x == 0, y < 0)):
            raise_('ZeroDivisionError', '0.0 cannot be raised to a negative power')
        if ip.ctx.branch(z3.And(x < 0, z3.Not(z3.IsInt(y)))):
            return S(VOther(z3.IntVal(-5)))           # a complex number: an unknown non-BareScript value
        # float pow: OverflowError iff the (mathematical) result exceeds DBL_MAX
        p = POW(x, y)
        if ip.ctx.branch(z3.Or(p > DBL_MAX_R, p < -DBL_MAX_R)):
            raise_('OverflowError', '(34, Numerical result out of range)')
        return R(p)
    raise OutOfReach(f'numeric operator {op}')


def date_add(ip, d, us, sign):
    t = d.t
    if not ip.ctx.must(V.kind(t) == 1):
        raise OutOfReach('datetime arithmetic on a non-normalised value')
    new_us = z3.simplify(V.us(t) + sign * us)
    if ip.ctx.branch(z3.Or(new_us < DATE_MIN_US, new_us > DATE_MAX_US)):
        raise_('OverflowError', 'date value out of range')
    return S(VDate(z3.IntVal(1), new_us))


# ---------------------------------------------------------------------------------------------
# comparisons
# ---------------------------------------------------------------------------------------------

def _bool_val(b):
    b = z3.simplify(b) if z3.is_expr(b) else b
    if isinstance(b, bool):
        return C(b)
    if is_t(b):
        return C(True)
    if is_f(b):
        return C(False)
    return B(b)


def same_object(ip, a, b):
    """`a is b` — python bool or z3 Bool"""
    a = norm(ip, a)
    b = norm(ip, b)
    if isinstance(a, C) and isinstance(b, C):
        if a.py is None or b.py is None or isinstance(a.py, bool) or isinstance(b.py, bool):
            return a.py is b.py
        return a.py == b.py and type(a.py) is type(b.py)
    if isinstance(a, Obj) or isinstance(b, Obj):
        return a is b
    for x, y in ((a, b), (b, a)):
        if isinstance(x, C) and x.py is None:
            ky = kind_of(ip, y)
            if ky is not None:
                return ky == 'none'
            return is_none(y.t)
        if isinstance(x, C) and isinstance(x.py, bool):
            if isinstance(y, S):
                return z3.And(is_bool(y.t), V.b(y.t) == x.py)
            if isinstance(y, B):
                return y.t == x.py
            return False
    ta, tb = ip.ctx.to_term(a), ip.ctx.to_term(b)
    # identity of containers is reference equality; identity of immutable values is not observable except
    # through value_is, for which the statement defines number equality separately
    return ta == tb


def equals(ip, a, b):
    """`a == b` — python bool or z3 Bool; never raises"""
    a = norm(ip, a)
    b = norm(ip, b)
    if isinstance(a, C) and isinstance(b, C):
        return a.py == b.py
    if isinstance(a, Obj) or isinstance(b, Obj):
        if isinstance(a, Obj) and isinstance(b, Obj) and a.kind == 'tuple' and b.kind == 'tuple':
            if len(a.f['items']) != len(b.f['items']):
                return False
            conds = [equals(ip, x, y) for x, y in zip(a.f['items'], b.f['items'])]
            return z3.And([z3.BoolVal(c) if isinstance(c, bool) else c for c in conds])
        return a is b
    ka, kb = kind_of(ip, a), kind_of(ip, b)
    numk = ('int', 'float', 'bool')
    if ka in numk and kb in numk:
        return real_term(ip, a) == real_term(ip, b)
    if ka == 'str' and kb == 'str':
        return str_term(ip, a) == str_term(ip, b)
    if ka is not None and kb is not None and ka != kb and not (ka in numk and kb in numk):
        if {ka, kb} <= {'clist', 'list'} or {ka, kb} <= {'cdict', 'dict'}:
            raise OutOfReach('container equality')
        return False
    # general symbolic case
    ta, tb = ip.ctx.to_term(a), ip.ctx.to_term(b)
    both_num = z3.And(p_isinstance_number(ta), p_isinstance_number(tb))
    cont = z3.Or(z3.And(is_list(ta), is_list(tb)), z3.And(is_dict(ta), is_dict(tb)))
    if ip.ctx.must(z3.Not(cont)):
        return z3.simplify(z3.If(both_num, numval(ta) == numval(tb), ta == tb))
    return z3.simplify(z3.If(both_num, numval(ta) == numval(tb), z3.If(cont, z3.Or(ta == tb, DEEPEQ(ta, tb)), ta == tb)))


def compare(ip, op, a, b):
    ctx = ip.ctx
    if op == 'Is':
        return _bool_val(same_object(ip, a, b))
    if op == 'IsNot':
        r = same_object(ip, a, b)
        return _bool_val((not r) if isinstance(r, bool) else z3.Not(r))
    if op == 'Eq':
        return _bool_val(equals(ip, a, b))
    if op == 'NotEq':
        r = equals(ip, a, b)
        return _bool_val((not r) if isinstance(r, bool) else z3.Not(r))
    if op in ('In', 'NotIn'):
        r = contains(ip, b, a)
        if op == 'NotIn':
            r = (not r) if isinstance(r, bool) else z3.Not(r)
        return _bool_val(r)
    # ordering
    a = norm(ip, a)
    b = norm(ip, b)
    if isinstance(a, C) and isinstance(b, C):
        try:
            return C({'Lt': a.py < b.py, 'LtE': a.py <= b.py, 'Gt': a.py > b.py, 'GtE': a.py >= b.py}[op])
        except TypeError as e:
            raise_('TypeError', str(e))
    if (_known_number(ip, a) or _known_number(ip, b)) and \
            all(_known_number(ip, v) or kind_of(ip, v) in ('int', 'float', 'bool') for v in (a, b)):
        x, y = numval(ctx.to_term(a)), numval(ctx.to_term(b))
        return _bool_val({'Lt': x < y, 'LtE': x <= y, 'Gt': x > y, 'GtE': x >= y}[op])
    ka, kb = numkind(ip, a), numkind(ip, b)
    if ka and kb:
        x, y = (int_term(ip, a), int_term(ip, b)) if (ka == 'int' and kb == 'int') else (real_term(ip, a), real_term(ip, b))
        return _bool_val({'Lt': x < y, 'LtE': x <= y, 'Gt': x > y, 'GtE': x >= y}[op])
    sa, sb = kind_of(ip, a), kind_of(ip, b)
    if sa is None and isinstance(a, S):
        sa = resolve_kind(ip, a, ('str', 'date'))
    if sb is None and isinstance(b, S):
        sb = resolve_kind(ip, b, ('str', 'date'))
    if sa == 'str' and sb == 'str':
        x, y = str_term(ip, a), str_term(ip, b)
        return _bool_val({'Lt': x < y, 'LtE': x <= y, 'Gt': y < x, 'GtE': y <= x}[op])
    if sa == 'date' and sb == 'date':
        ta, tb = a.t, b.t
        # CPython: two dates, two naive or two aware datetimes are ordered by their instant; mixing them is a TypeError
        if ctx.branch(V.kind(ta) == V.kind(tb)):
            x, y = V.us(ta), V.us(tb)
            return _bool_val({'Lt': x < y, 'LtE': x <= y, 'Gt': x > y, 'GtE': x >= y}[op])
        if ctx.branch(z3.Or(V.kind(ta) == 0, V.kind(tb) == 0)):
            raise_('TypeError', "can't compare datetime.datetime to datetime.date")
        raise_('TypeError', "can't compare offset-naive and offset-aware datetimes")
    raise_('TypeError', f'ordering not supported between these operand types ({sa}, {sb})')


def contains(ip, container, item):
    """item in container -> python bool / z3 Bool"""
    ctx = ip.ctx
    container = norm(ip, container)
    if isinstance(container, C):
        py = container.py
        item_n = norm(ip, item)
        if isinstance(py, dict) or isinstance(py, (list, tuple, set, frozenset)):
            keys = list(py.keys()) if isinstance(py, dict) else list(py)
            if isinstance(item_n, C):
                return any((not isinstance(k, Val)) and k == item_n.py for k in keys)
            if isinstance(py, dict) and len(py) > 8 and all(isinstance(x, Obj) and x.kind == 'func' for x in py.values()):
                # a large constant table of functions tested with a symbolic key: the same uninterpreted membership
                # function as TABLE.get(key) uses (the table's contents are checked by an exhaustive table lemma)
                from .models_calls import TABLE_NAMES, used, ufun
                name = TABLE_NAMES.get(id(py))
                if name is not None and (kind_of(ip, item_n) == 'str' or (isinstance(item_n, S) and ctx.must(is_str(item_n.t)))):
                    used(f'key in {name} (symbolic key): uninterpreted membership function')
                    return ufun(f'TABLE_HAS_{name}', Str, Bool)(key_term(ip, item_n))
            conds = []
            for k in keys:
                r = equals(ip, item_n, ctx.wrap(k))
                conds.append(z3.BoolVal(r) if isinstance(r, bool) else r)
            return z3.simplify(z3.Or(conds)) if conds else False
        if isinstance(py, str):
            if isinstance(item_n, C):
                return item_n.py in py
            return z3.Contains(z3.StringVal(py), str_term(ip, item_n))
        raise OutOfReach(f'in on concrete {type(py).__name__}')
    if isinstance(container, Obj):
        if container.kind == 'tableset':
            rel = z3.Function('TABLE_IN_' + container.f['name'], Str, Str, Bool)
            item_n = norm(ip, item)
            if kind_of(ip, item_n) != 'str' and not (isinstance(item_n, S) and ctx.must(is_str(item_n.t))):
                return False
            return rel(container.f['key'], str_term(ip, item_n))
        if container.kind in ('tuple', 'set'):
            conds = []
            for x in container.f['items']:
                r = equals(ip, item, x)
                if r is True:
                    return True
                conds.append(z3.BoolVal(r) if isinstance(r, bool) else r)
            return z3.simplify(z3.Or(conds)) if conds else False
        if container.kind == 'dictkeys':
            return contains(ip, container.f['dict'], item)
        raise OutOfReach(f'in on {container.kind}')
    if isinstance(container, T):
        return z3.Contains(container.t, str_term(ip, item))
    if isinstance(container, S):
        k = resolve_kind(ip, container, ('dict', 'list', 'str'))
        if k == 'dict':
            item_n = norm(ip, item)
            ik = kind_of(ip, item_n)
            if ik is not None and ik != 'str':
                return False
            return ctx.heap.dhas(V.dref(container.t), key_term(ip, item_n))
        if k == 'list':
            hook = ctx.cfg.hooks.get('list_contains')
            if hook is not None:
                return hook(ip, container, item)
            item_n = norm(ip, item)
            if kind_of(ip, item_n) == 'str' or (isinstance(item_n, S) and ctx.must(is_str(item_n.t))):
                # membership of a string in a list: some element is that string
                ref = z3.simplify(V.lref(container.t))
                i = z3.Int('i!in')
                return z3.Exists([i], z3.And(i >= 0, i < ctx.heap.llen(ref), ctx.heap.lget(ref, i) == VStr(str_term(ip, item_n))))
            raise OutOfReach('in on a symbolic list')
        if k == 'str':
            return z3.Contains(V.s(container.t), str_term(ip, item))
        raise_('TypeError', 'argument is not iterable')
    raise OutOfReach(f'in on {container!r}')


# ---------------------------------------------------------------------------------------------
# subscripts
# ---------------------------------------------------------------------------------------------

def _clamp(idx, n):
    """Python slice bound clamp for a given int term."""
    return z3.If(idx < 0, z3.If(idx + n < 0, z3.IntVal(0), idx + n), z3.If(idx > n, n, idx))


def slice_bounds(ip, sl, n):
    if sl.f['step'] is not None:
        raise OutOfReach('slice step')
    lo = sl.f['lower']
    hi = sl.f['upper']
    lo_t = z3.IntVal(0) if lo is None or (isinstance(lo, C) and lo.py is None) else _clamp(slice_int(ip, lo), n)
    hi_t = n if hi is None or (isinstance(hi, C) and hi.py is None) else _clamp(slice_int(ip, hi), n)
    return z3.simplify(lo_t), z3.simplify(hi_t)


def slice_int(ip, val):
    val = norm(ip, val)
    k = numkind(ip, val)
    if k == 'int':
        return int_term(ip, val)
    if isinstance(val, S) and ip.ctx.branch(is_none(val.t)):
        raise OutOfReach('symbolic None slice bound')
    raise_('TypeError', 'slice indices must be integers or None or have an __index__ method')


def index_int(ip, val, what):
    val = norm(ip, val)
    k = numkind(ip, val)
    if k == 'int':
        return int_term(ip, val)
    raise_('TypeError', f'{what} indices must be integers or slices')


def subscript(ip, obj, idx):
    ctx = ip.ctx
    obj = norm(ip, obj)
    is_slice = isinstance(idx, Obj) and idx.kind == 'slice'
    if isinstance(obj, C):
        py = obj.py
        if is_slice:
            lo, hi = idx.f['lower'], idx.f['upper']
            if all(x is None or isinstance(norm(ip, x), C) for x in (lo, hi)) and idx.f['step'] is None:
                lo = None if lo is None else norm(ip, lo).py
                hi = None if hi is None else norm(ip, hi).py
                try:
                    return ctx.wrap(py[lo:hi])
                except TypeError as e:
                    raise_('TypeError', str(e))
            if isinstance(py, str):
                return subscript(ip, T(z3.StringVal(py)), idx)
            raise OutOfReach('symbolic slice of a concrete sequence')
        idx_n = norm(ip, idx)
        if isinstance(idx_n, C):
            try:
                return ctx.wrap(py[idx_n.py])
            except (KeyError, IndexError, TypeError) as e:
                raise_(type(e).__name__, str(e))
        if isinstance(py, dict) and len(py) > 8 and all(isinstance(v, (set, frozenset)) for v in py.values()):
            # a large constant table of sets indexed with a symbolic key: membership in the result is an uninterpreted
            # relation (the table's contents are checked by an exhaustive table lemma)
            from .models_calls import TABLE_NAMES, used
            name = TABLE_NAMES.get(id(py))
            if name is not None:
                kt = key_term(ip, idx_n)
                used(f'{name}[symbolic key]: membership as an uninterpreted relation (contents checked by the table lemma)')
                inn = z3.Or([kt == z3.StringVal(k) for k in py.keys()])
                if not ctx.branch(inn):
                    raise_('KeyError', 'key')
                return Obj('tableset', name=name, key=kt)
        if isinstance(py, dict) and len(py) > 8 and all(isinstance(x, Obj) and x.kind == 'func' for x in py.values()):
            # a large constant table of functions indexed with a symbolic key: the same uninterpreted lookup function as
            # TABLE.get(key) uses; KeyError when the key is absent
            from .models_calls import TABLE_NAMES, used, ufun
            name = TABLE_NAMES.get(id(py))
            if name is not None:
                kt = key_term(ip, idx_n)
                used(f'{name}[symbolic key]: uninterpreted lookup function')
                if not ctx.branch(ufun(f'TABLE_HAS_{name}', Str, Bool)(kt)):
                    raise_('KeyError', 'key')
                v = ufun(f'TABLE_{name}', Str, V)(kt)
                ctx.assume(is_func(v))
                return S(v)
        if isinstance(py, dict):
            # symbolic key into a concrete dict
            kt = key_term(ip, idx_n)
            for k, v in py.items():
                if ctx.branch(kt == z3.StringVal(k)):
                    return ctx.wrap(v)
            raise_('KeyError', 'key')
        if isinstance(py, str):
            return subscript(ip, T(z3.StringVal(py)), idx)
        if isinstance(py, (list, tuple)):
            it = index_int(ip, idx_n, 'list')
            n = len(py)
            for k in range(n):
                if ctx.branch(z3.Or(it == k, it == k - n)):
                    return ctx.wrap(py[k])
            raise_('IndexError', 'list index out of range')
        raise OutOfReach(f'subscript of concrete {type(py).__name__}')
    if isinstance(obj, Obj):
        if obj.kind == 'tuple':
            idx_n = norm(ip, idx)
            if isinstance(idx_n, C) and isinstance(idx_n.py, int):
                try:
                    return obj.f['items'][idx_n.py]
                except IndexError:
                    raise_('IndexError', 'tuple index out of range')
            raise OutOfReach('symbolic tuple index')
        if obj.kind == 'match':
            from .models_calls import match_group
            return match_group(ip, obj, idx)
        if obj.kind == 'pairs':
            # sorted(d.items()) view: element k is the tuple (key_k, value_k)
            it = index_int(ip, idx, 'list')
            n = obj.f['n']
            if ctx.branch(z3.And(it >= 0, it < n)):
                return Obj('tuple', items=[T(z3.Select(obj.f['keys'], it)), ctx.loaded(z3.Select(obj.f['vals'], it))])
            if ctx.branch(z3.And(it < 0, it >= -n)):
                raise OutOfReach('negative index into sorted pairs')
            raise_('IndexError', 'list index out of range')
        raise OutOfReach(f'subscript of {obj.kind}')
    if isinstance(obj, T):
        return str_subscript(ip, obj.t, idx)
    if isinstance(obj, S):
        k = resolve_kind(ip, obj, ('list', 'dict', 'str'))
        h = ctx.heap
        if k == 'list':
            ref = z3.simplify(V.lref(obj.t))
            n = h.llen(ref)
            if is_slice:
                lo, hi = slice_bounds(ip, idx, n)
                j = z3.Int('j!sl')
                els = z3.Lambda([j], z3.Select(h.lels(ref), j + lo))
                newlen = z3.simplify(z3.If(hi > lo, hi - lo, z3.IntVal(0)))
                nref, ctx.heap = ctx.heap.new_list(newlen, els)
                return S(VList(nref))
            it = index_int(ip, idx, 'list')
            if ctx.branch(z3.And(it >= 0, it < n)):
                return ctx.loaded(h.lget(ref, it))
            if ctx.branch(z3.And(it < 0, it >= -n)):
                return ctx.loaded(h.lget(ref, it + n))
            raise_('IndexError', 'list index out of range')
        if k == 'dict':
            if is_slice:
                raise_('TypeError', 'unhashable type: slice')
            idx_n = norm(ip, idx)
            ik = kind_of(ip, idx_n)
            ref = z3.simplify(V.dref(obj.t))
            if ik is not None and ik != 'str':
                if ik in ('list', 'dict', 'clist', 'cdict'):
                    raise_('TypeError', 'unhashable type')
                raise_('KeyError', 'non-string key')
            kt = key_term(ip, idx_n)
            if ctx.branch(h.dhas(ref, kt)):
                return ctx.loaded(h.dget(ref, kt))
            raise_('KeyError', 'key')
        if k == 'str':
            return str_subscript(ip, V.s(obj.t), idx)
        raise_('TypeError', 'object is not subscriptable')
    raise OutOfReach(f'subscript of {obj!r}')


def str_subscript(ip, s, idx):
    ctx = ip.ctx
    n = z3.Length(s)
    if isinstance(idx, Obj) and idx.kind == 'slice':
        lo, hi = slice_bounds(ip, idx, n)
        return T(z3.simplify(z3.SubString(s, lo, z3.If(hi > lo, hi - lo, z3.IntVal(0)))))
    it = index_int(ip, idx, 'string')
    if ctx.branch(z3.And(it >= 0, it < n)):
        return T(z3.SubString(s, it, 1))
    if ctx.branch(z3.And(it < 0, it >= -n)):
        return T(z3.SubString(s, it + n, 1))
    raise_('IndexError', 'string index out of range')


def store_subscript(ip, obj, idx, val):
    ctx = ip.ctx
    obj = norm(ip, obj)
    if not isinstance(obj, S):
        raise OutOfReach(f'store into {obj!r}')
    k = resolve_kind(ip, obj, ('list', 'dict'))
    h = ctx.heap
    if k == 'list':
        ref = z3.simplify(V.lref(obj.t))
        n = h.llen(ref)
        if isinstance(idx, Obj) and idx.kind == 'slice':
            raise OutOfReach('slice assignment')
        it = index_int(ip, idx, 'list')
        vt = ctx.stored(val)
        if ctx.branch(z3.And(it >= 0, it < n)):
            ctx.heap = ctx.heap.lset(ref, it, vt)
            return
        if ctx.branch(z3.And(it < 0, it >= -n)):
            ctx.heap = ctx.heap.lset(ref, it + n, vt)
            return
        raise_('IndexError', 'list assignment index out of range')
    if k == 'dict':
        ref = z3.simplify(V.dref(obj.t))
        idx_n = norm(ip, idx)
        ik = kind_of(ip, idx_n)
        if ik in ('list', 'dict'):
            raise_('TypeError', 'unhashable type')
        kt = key_term(ip, idx_n)
        vt = ctx.stored(val)
        ctx.heap = ctx.heap.dset(ref, kt, vt)
        return
    raise_('TypeError', 'object does not support item assignment')


def delete_subscript(ip, obj, idx):
    ctx = ip.ctx
    obj = norm(ip, obj)
    if not isinstance(obj, S):
        raise OutOfReach(f'del on {obj!r}')
    k = resolve_kind(ip, obj, ('list', 'dict'))
    h = ctx.heap
    if k == 'list':
        ref = z3.simplify(V.lref(obj.t))
        n = h.llen(ref)
        if isinstance(idx, Obj) and idx.kind == 'slice':
            lo, hi = slice_bounds(ip, idx, n)
            # remove [lo, hi)
            j = z3.Int('j!del')
            cut = z3.If(hi > lo, hi - lo, z3.IntVal(0))
            els = z3.Lambda([j], z3.If(j < lo, z3.Select(h.lels(ref), j), z3.Select(h.lels(ref), j + cut)))
            ctx.heap = h.lsetall(ref, z3.simplify(n - cut), els)
            return
        it = index_int(ip, idx, 'list')
        pos = None
        if ctx.branch(z3.And(it >= 0, it < n)):
            pos = it
        elif ctx.branch(z3.And(it < 0, it >= -n)):
            pos = it + n
        else:
            raise_('IndexError', 'list assignment index out of range')
        j = z3.Int('j!del')
        els = z3.Lambda([j], z3.If(j < pos, z3.Select(h.lels(ref), j), z3.Select(h.lels(ref), j + 1)))
        ctx.heap = h.lsetall(ref, z3.simplify(n - 1), els)
        return
    if k == 'dict':
        ref = z3.simplify(V.dref(obj.t))
        kt = key_term(ip, norm(ip, idx))
        if not ctx.branch(h.dhas(ref, kt)):
            raise_('KeyError', 'key')
        ctx.heap = dict_remove(ip, h, ref, kt)
        return
    raise_('TypeError', 'object does not support item deletion')


def dict_remove(ip, h, ref, kt):
    ctx = ip.ctx
    p = ctx.fresh('kpos', Int)
    nk = h.dnk(ref)
    keys = z3.Select(h.KEY, ref)
    ctx.assume(z3.And(p >= 0, p < nk, z3.Select(keys, p) == kt))
    j = z3.Int('j!kdel')
    newkeys = z3.Lambda([j], z3.If(j < p, z3.Select(keys, j), z3.Select(keys, j + 1)))
    return h.copy(HAS=z3.Store(h.HAS, ref, z3.Store(z3.Select(h.HAS, ref), kt, z3.BoolVal(False))),
                  NK=z3.Store(h.NK, ref, nk - 1),
                  KEY=z3.Store(h.KEY, ref, newkeys))


# ---------------------------------------------------------------------------------------------
# unpacking and iteration
# ---------------------------------------------------------------------------------------------

def unpack(ip, val, n):
    ctx = ip.ctx
    val = norm(ip, val)
    if isinstance(val, Obj) and val.kind == 'tuple':
        items = val.f['items']
        if len(items) != n:
            raise_('ValueError', 'unpack count mismatch')
        return items
    if isinstance(val, C) and isinstance(val.py, (list, tuple)):
        if len(val.py) != n:
            raise_('ValueError', 'unpack count mismatch')
        return [ctx.wrap(x) for x in val.py]
    if isinstance(val, Obj) and val.kind == 'dictkeys':
        d = val.f['dict']
        ref = z3.simplify(V.dref(d.t))
        h = ctx.heap
        if not ctx.branch(h.dnk(ref) == n):
            raise_('ValueError', 'unpack count mismatch')
        keys = [h.dkey(ref, z3.IntVal(i)) for i in range(n)]
        for kt in keys:
            ctx.assume(h.dhas(ref, kt))
        if n == 1:
            # a single-key dict: membership is equality with that key
            from .models_calls import single_key_fact
            single_key_fact(ip, ref, keys[0])
        return [T(k) for k in keys]
    if isinstance(val, S):
        k = resolve_kind(ip, val, ('list',))
        if k != 'list':
            raise_('TypeError', 'cannot unpack non-iterable')
        ref = z3.simplify(V.lref(val.t))
        h = ctx.heap
        if not ctx.branch(h.llen(ref) == n):
            raise_('ValueError', 'unpack count mismatch')
        return [norm(ip, ctx.loaded(h.lget(ref, z3.IntVal(i)))) for i in range(n)]
    raise OutOfReach(f'unpack of {val!r}')


def concrete_items(ip, val):
    """Items of a value whose length is statically known (for *args and [*a, *b])."""
    val = norm(ip, val)
    if isinstance(val, Obj) and val.kind == 'tuple':
        return list(val.f['items'])
    if isinstance(val, C) and isinstance(val.py, (list, tuple)):
        return [ip.ctx.wrap(x) for x in val.py]
    if isinstance(val, S):
        ctx = ip.ctx
        if kind_of(ip, val) == 'list':
            ref = z3.simplify(V.lref(val.t))
            n = z3.simplify(ctx.heap.llen(ref))
            if z3.is_int_value(n):
                return [ctx.loaded(ctx.heap.lget(ref, z3.IntVal(i))) for i in range(n.as_long())]
        return [Obj('spread', value=val)]
    raise OutOfReach(f'star-unpack of {val!r}')


def iteration(ip, it):
    """('concrete', [items]) or ('symbolic', length_fn(heap), elem_fn(heap, k))"""
    ctx = ip.ctx
    it = norm(ip, it)
    if isinstance(it, C):
        py = it.py
        if isinstance(py, (list, tuple, str)):
            return ('concrete', [ctx.wrap(x) for x in py])
        if isinstance(py, dict):
            return ('concrete', [ctx.wrap(k) for k in py.keys()])
        raise_('TypeError', f'{type(py).__name__} object is not iterable')
    if isinstance(it, Obj):
        k = it.kind
        if k in ('tuple', 'set'):
            return ('concrete', list(it.f['items']))
        if k == 'range':
            a, b, s = it.f['start'], it.f['stop'], it.f['step']
            if all(isinstance(x, C) for x in (a, b, s)):
                return ('concrete', [C(x) for x in range(a.py, b.py, s.py)])
            at, bt = int_term(ip, a), int_term(ip, b)
            if isinstance(s, C) and isinstance(s.py, int) and s.py > 1:
                st = s.py
                return ('symbolic', lambda h: z3.If(bt > at, (bt - at + (st - 1)) / st, z3.IntVal(0)),
                        lambda h, k: norm(ip, I(at + k * st)))
            if not (isinstance(s, C) and s.py in (1, -1)):
                raise OutOfReach('symbolic range with step other than +-1')
            if s.py == 1:
                return ('symbolic', lambda h: z3.If(bt > at, bt - at, z3.IntVal(0)), lambda h, k: norm(ip, I(at + k)))
            return ('symbolic', lambda h: z3.If(at > bt, at - bt, z3.IntVal(0)), lambda h, k: norm(ip, I(at - k)))
        if k == 'enumerate':
            inner = iteration(ip, it.f['inner'])
            start = it.f.get('start', 0)
            if inner[0] == 'concrete':
                return ('concrete', [Obj('tuple', items=[C(i + start), x]) for i, x in enumerate(inner[1])])
            return ('symbolic', inner[1], lambda h, kk: Obj('tuple', items=[norm(ip, I(kk + start)), inner[2](h, kk)])) + tuple(inner[3:])
        if k == 'dictkeys' or k == 'dictitems' or k == 'dictvalues':
            d = it.f['dict']
            if isinstance(d, C):
                py = d.py
                if k == 'dictkeys':
                    return ('concrete', [ctx.wrap(x) for x in py.keys()])
                if k == 'dictvalues':
                    return ('concrete', [ctx.wrap(x) for x in py.values()])
                return ('concrete', [Obj('tuple', items=[ctx.wrap(a), ctx.wrap(b)]) for a, b in py.items()])
            ref = z3.simplify(V.dref(d.t))
            n0 = ctx.heap.dnk(ref)
            keys0 = z3.Select(ctx.heap.KEY, ref)

            def elem(h, kk, k=k, ref=ref, keys0=keys0):
                key = z3.Select(keys0, kk)
                ctx.assume(h.dhas(ref, key))
                if k == 'dictkeys':
                    return T(key)
                v = ctx.loaded(h.dget(ref, key))
                if k == 'dictvalues':
                    return v
                return Obj('tuple', items=[T(key), v])
            return ('symbolic', lambda h: n0, elem)
        if k == 'reversed':
            inner = iteration(ip, it.f['inner'])
            if inner[0] == 'concrete':
                return ('concrete', list(reversed(inner[1])))
            raise OutOfReach('reversed over a symbolic sequence')
        if k == 'pairs':
            return ('symbolic', lambda h: it.f['n'],
                    lambda h, kk: Obj('tuple', items=[T(z3.Select(it.f['keys'], kk)), ctx.loaded(z3.Select(it.f['vals'], kk))]))
        if k == 'genexp':
            raise OutOfReach('iteration over a generator expression')
        raise OutOfReach(f'iteration over {k}')
    if isinstance(it, T):
        return ('symbolic', lambda h: z3.Length(it.t), lambda h, kk: T(z3.SubString(it.t, kk, 1)))
    if isinstance(it, S):
        k = resolve_kind(ip, it, ('list', 'dict', 'str'))
        if k == 'list':
            ref = z3.simplify(V.lref(it.t))
            return ('symbolic', lambda h: h.llen(ref), lambda h, kk: norm(ip, ctx.loaded(h.lget(ref, kk))), {'list_ref': ref})
        if k == 'dict':
            return iteration(ip, Obj('dictkeys', dict=it))
        if k == 'str':
            s = V.s(it.t)
            return ('symbolic', lambda h: z3.Length(s), lambda h, kk: T(z3.SubString(s, kk, 1)))
        raise_('TypeError', 'object is not iterable')
    raise OutOfReach(f'iteration over {it!r}')
