"""pyvc.models_loops — inductive loops (invariants from the sidecar), comprehension idioms, modular calls."""

import ast
import z3

from .core import (V, VNone, VBool, VInt, VFloat, VStr, VList, VDict, is_none, is_list, is_str, Str, Int, Real, Bool,
                   ArrIntV, ArrIntS, Heap, wf_value, Val, C, S, B, I, R, T, Obj, is_t, is_f)
from .interp import PyRaise, OutOfReach, make_exc, PathEnd, _Break, _Continue, Frame
from .source import assigned_names
from .models_ops import norm, kind_of, iteration, raise_, str_term, unpack


class LoopSpec:
    """Sidecar loop contract.

    invariant(L) -> list of (label, z3 Bool); L is a LoopView
    heap: 'havoc' (default) or 'unchanged' (checked)
    decreases(L) -> z3 Int term (while loops)
    types: {local name: 'int'|'bool'|'str'|'real'|'value'|'keep'} overriding the default havoc typing
    """

    def __init__(self, invariant, heap='havoc', decreases=None, types=None, header=None, lemmas=None, body_check=None,
                 keeps_owned=False, mk_heap=None, case_facts=None, owned=None, trusted_invariant=False,
                 iter_unmodified='prove', entry_check=None):
        self.entry_check = entry_check   # entry_check(L) -> obligations about the state in which the loop is entered
                                         # (discharged even when the invariant itself is trusted)
        self.iter_unmodified = iter_unmodified    # 'prove': the iterated list is shown unmodified by each iteration;
                                                  # 'assume': trusted (callbacks do not touch the list being walked)
        self.trusted_invariant = trusted_invariant   # the invariant is assumed at the head but not proved (listed)
        self.owned = owned             # owned(L) -> [(kind, ref, guard)] temporaries the invariant declares unescaped
        self.case_facts = case_facts   # case_facts(L, label) -> (facts of this case, disjunction of all cases) | None
        self.mk_heap = mk_heap         # mk_heap(ctx) -> the havocked heap at the loop head (default: a fresh heap)
        self.body_check = body_check   # body_check(L, events) -> obligations about the ghost events of one iteration
        self.keeps_owned = keeps_owned   # unescaped temporaries stay owned across iterations (checked per body)
        self.lemmas = lemmas      # lemmas(L) -> definitional instances of spec functions assumed at the loop head
        self.invariant = invariant
        self.heap = heap
        self.decreases = decreases
        self.types = types or {}
        self.header = header      # expected source text of the loop header (anchor check), optional


class LoopView:
    def __init__(self, ip, frame, env, heap, env0, heap0, k):
        self.ip, self.frame, self.env, self.heap, self.env0, self.heap0, self.k = ip, frame, env, heap, env0, heap0, k
        self.ctx = ip.ctx

    def _get(self, env, name):
        if name not in env:
            # a loop specification is anchored to the locals of the code it was written for: a renamed or removed local
            # makes the clause unstatable, which is "undecided" (bounded stand-ins take over), never a violation
            from .interp import OutOfReach
            raise OutOfReach(f'{self.frame.qual}: the local `{name}` a loop specification is anchored to does not exist')
        return env[name]

    def v(self, name):
        return norm(self.ip, self._get(self.env, name))

    def v0(self, name):
        return norm(self.ip, self._get(self.env0, name))

    def has(self, name):
        return name in self.env

    def term(self, name):
        return self.ctx.to_term(self._get(self.env, name))

    def int(self, name):
        from .models_ops import int_term
        return int_term(self.ip, self.v(name))


def _labelled(res):
    if res is None:
        return []
    if z3.is_expr(res):
        return [('inv', res)]
    out = []
    for ix, item in enumerate(res):
        if isinstance(item, tuple):
            out.append(item)
        else:
            out.append((f'inv{ix}', item))
    return out


def _havoc_val(ip, name, cur, how):
    ctx = ip.ctx
    if how == 'keep':
        return cur
    if how is None:
        cur_n = norm(ip, cur) if cur is not None else None
        if isinstance(cur_n, I) or (isinstance(cur_n, C) and isinstance(cur_n.py, int) and not isinstance(cur_n.py, bool)):
            how = 'int'
        elif isinstance(cur_n, B) or (isinstance(cur_n, C) and isinstance(cur_n.py, bool)):
            how = 'bool'
        elif isinstance(cur_n, T) or (isinstance(cur_n, C) and isinstance(cur_n.py, str)):
            how = 'str'
        elif isinstance(cur_n, R) or (isinstance(cur_n, C) and isinstance(cur_n.py, float)):
            how = 'real'
        elif isinstance(cur_n, Obj):
            raise OutOfReach(f'loop-carried variable {name} holds a meta object ({cur_n.kind}); declare it keep')
        else:
            how = 'value'
    if how == 'int':
        return I(ctx.fresh(name, Int))
    if how == 'bool':
        return B(ctx.fresh(name, Bool))
    if how == 'str':
        return T(ctx.fresh(name, Str))
    if how == 'real':
        return R(ctx.fresh(name, Real))
    v = ctx.fresh(name, V)
    return S(v)


def inductive_loop(ip, frame, st, spec, seq, tag=None):
    ctx = ip.ctx
    qual = frame.qual
    if tag is None:
        ordn = ip.loop_ordinal(frame, st)
        tag = f'{qual}.loop{ordn}'
    if spec.header is not None:
        seg = ip.repo.modules[frame.module].segment(st.iter if isinstance(st, ast.For) else st.test)
        if ' '.join(seg.split()) != ' '.join(spec.header.split()):
            raise OutOfReach(f'{tag}: loop header changed: {seg!r} (contract anchored to {spec.header!r})')
    env0 = dict(frame.env)
    heap0 = ctx.heap
    is_for = isinstance(st, ast.For)
    # establish
    view0 = LoopView(ip, frame, frame.env, ctx.heap, env0, heap0, z3.IntVal(0))
    if not spec.trusted_invariant:
        for label, f in _labelled(spec.invariant(view0)):
            ctx.oblige(f'{tag}.establish.{label}', f, kind='loop-establish')
    else:
        ctx.note(f'{tag}: state-typing invariant assumed, not proved')
    if spec.entry_check is not None:
        for label, f in _labelled(spec.entry_check(view0)):
            ctx.oblige(f'{tag}.entry.{label}', f, kind='loop-establish')
    # havoc
    body_nodes = list(st.body)
    names = assigned_names(body_nodes)
    if is_for:
        names |= assigned_names([ast.Assign(targets=[st.target], value=ast.Constant(value=None))])
    for name in sorted(names):
        frame.env[name] = _havoc_val(ip, name, env0.get(name), spec.types.get(name))
    if spec.heap != 'unchanged':
        ctx.heap = spec.mk_heap(ctx) if spec.mk_heap is not None else ctx.fresh_heap('loop')
        ctx.assume(ctx.heap.alloc >= heap0.alloc)
        # containers allocated before the loop that the loop body may touch are described by the invariant;
        # ownership information does not survive the havoc
        ctx.owned = [o for o in ctx.owned if spec.keeps_owned]
    for name in sorted(names):
        v = frame.env[name]
        if isinstance(v, S):
            ctx.assume(wf_value(ctx.heap, v.t))
    k = ctx.fresh('k', Int) if is_for else None
    if is_for:
        ctx.assume(k >= 0)
    iter_ref = seq[3].get('list_ref') if (is_for and seq is not None and len(seq) > 3) else None
    if iter_ref is not None and spec.heap != 'unchanged':
        # the list being iterated is not modified by the loop: assumed at the head, proved at the end of every iteration
        i0_ = z3.Int('i!itl0')
        ctx.assume(ctx.heap.llen(iter_ref) == heap0.llen(iter_ref))
        ctx.assume(z3.ForAll([i0_], z3.Implies(z3.And(i0_ >= 0, i0_ < heap0.llen(iter_ref)),
                                               ctx.heap.lget(iter_ref, i0_) == heap0.lget(iter_ref, i0_))))
        # the element about to be visited (instance of the quantified fact, for the branch solver)
        ctx.assume(z3.Implies(k < heap0.llen(iter_ref), ctx.heap.lget(iter_ref, k) == heap0.lget(iter_ref, k)))
    view = LoopView(ip, frame, frame.env, ctx.heap, env0, heap0, k)
    for label, f in _labelled(spec.invariant(view)):
        ctx.assume(f)
    if spec.lemmas is not None:
        for label, f in _labelled(spec.lemmas(view)):
            ctx.assume(f)
    if spec.owned is not None:
        # the invariant names the temporaries that stay unescaped across iterations; nothing else is carried
        declared = list(spec.owned(view))
        ctx.owned = declared
    heap_head = ctx.heap
    owned_head = list(ctx.owned)
    measure0 = spec.decreases(view) if spec.decreases is not None else None
    if is_for:
        go = ctx.branch(k < seq[1](ctx.heap))
    else:
        go = ctx.test(ip.eval(frame, st.test))
    if not go:
        ctx.ghost.setdefault('events', []).append({'kind': 'loop-done', 'loop': tag, 'k': k, 'heap_before': heap0,
                                                    'heap_after': ctx.heap, 'env': dict(frame.env)})
        ip.exec_block(frame, st.orelse)
        return
    if is_for:
        ip.assign(frame, st.target, seq[2](ctx.heap, k))
    if spec.case_facts is not None:
        cf = spec.case_facts(LoopView(ip, frame, frame.env, ctx.heap, env0, heap0, k), ctx.ghost.get('case_label'))
        if cf is not None:
            this, allc = cf
            ctx.oblige(f'{tag}.case-split-exhaustive', allc, kind='case-split')
            ctx.assume(this)
    ev0 = len(ctx.ghost.setdefault('events', []))
    ctx.ghost['events'].append({'kind': 'loop-body-begin', 'loop': tag, 'k': k, 'heap': ctx.heap, 'env': dict(frame.env)})
    try:
        ip.exec_block(frame, st.body)
    except _Break:
        ctx.ghost['events'].append({'kind': 'loop-break', 'loop': tag})
        return
    except _Continue:
        pass
    if spec.body_check is not None:
        viewb = LoopView(ip, frame, frame.env, ctx.heap, env0, heap0, k)
        for label, f in _labelled(spec.body_check(viewb, ctx.ghost['events'][ev0 + 1:])):
            ctx.oblige(f'{tag}.body.{label}', f if z3.is_expr(f) else z3.BoolVal(bool(f)), kind='loop-body')
    if iter_ref is not None and spec.heap != 'unchanged' and spec.iter_unmodified == 'assume':
        ctx.assume(ctx.heap.llen(iter_ref) == heap_head.llen(iter_ref))
        ia_ = z3.Int('i!itla')
        ctx.assume(z3.ForAll([ia_], z3.Implies(z3.And(ia_ >= 0, ia_ < heap_head.llen(iter_ref)),
                                               ctx.heap.lget(iter_ref, ia_) == heap_head.lget(iter_ref, ia_))))
    if spec.keeps_owned:
        for entry in owned_head:
            kind, ref = entry[0], entry[1]
            if not any(o[0] == kind and o[1].eq(ref) for o in ctx.owned):
                raise OutOfReach(f'{tag}: a temporary assumed unescaped escapes in the loop body')
    view2 = LoopView(ip, frame, frame.env, ctx.heap, env0, heap0, (k + 1) if is_for else None)
    if not spec.trusted_invariant:
        for label, f in _labelled(spec.invariant(view2)):
            ctx.oblige(f'{tag}.preserve.{label}', f, kind='loop-preserve')
    if False:
        pass
    elif iter_ref is not None and spec.heap != 'unchanged' and not spec.trusted_invariant:
        i_ = z3.Int('i!itl')
        ctx.oblige(f'{tag}.iterated-list-unmodified',
                   z3.And(ctx.heap.llen(iter_ref) == heap_head.llen(iter_ref),
                          z3.ForAll([i_], z3.Implies(z3.And(i_ >= 0, i_ < heap_head.llen(iter_ref)),
                                                     ctx.heap.lget(iter_ref, i_) == heap_head.lget(iter_ref, i_)))),
                   kind='loop-frame')
    if spec.heap == 'unchanged':
        h, g = ctx.heap, heap_head
        ctx.oblige(f'{tag}.heap-unchanged', z3.And(h.LEN == g.LEN, h.ELS == g.ELS, h.HAS == g.HAS, h.VAL == g.VAL,
                                                   h.NK == g.NK, h.KEY == g.KEY), kind='loop-frame')
    if measure0 is not None:
        m1 = spec.decreases(view2)
        ctx.oblige(f'{tag}.decreases', z3.And(measure0 >= 0, m1 < measure0), kind='loop-decreases')
    raise PathEnd('loop-iteration')


# ---------------------------------------------------------------------------------------------
# comprehension idioms
# ---------------------------------------------------------------------------------------------

def _single_gen(node):
    if len(node.generators) != 1 or node.generators[0].is_async:
        raise OutOfReach('comprehension with several generators')
    return node.generators[0]


def genexp_items(ip, gen):
    """Items of a generator expression over a statically sized iterable."""
    node, frame = gen.f['node'], gen.f['frame']
    g = _single_gen(node)
    seq = iteration(ip, ip.eval(frame, g.iter))
    if seq[0] != 'concrete':
        raise OutOfReach('generator over a symbolic iterable')
    out = []
    sub = Frame(frame.module, frame.qual, {'__parent__': frame.env}, None)
    for item in seq[1]:
        ip.assign(sub, g.target, item)
        if all(ip.ctx.test(ip.eval(sub, cond)) for cond in g.ifs):
            out.append(ip.eval(sub, node.elt))
    return out


def genexp_list(ip, gen):
    node, frame = gen.f['node'], gen.f['frame']
    hook = ip.ctx.cfg.hooks.get('genexp_list')
    if hook is not None:
        r = hook(ip, gen)
        if r is not None:
            return r
    return _map_list(ip, frame, node)


def comp_ordinal(frame, node):
    if frame.fn_node is None:
        return None
    n = 0
    for x in ast.walk(frame.fn_node):
        if isinstance(x, ast.ListComp):
            if x is node:
                return n
            n += 1
    return None


def listcomp(ip, frame, node):
    hook = ip.ctx.cfg.hooks.get('listcomp')
    if hook is not None:
        r = hook(ip, frame, node)
        if r is not None:
            return r
    spec = ip.ctx.cfg.loop_specs.get((frame.qual, f'comp{comp_ordinal(frame, node)}'))
    if spec is not None:
        # [E for T in IT]  ==  tmp = []; for T in IT: tmp.append(E)   (desugared, then treated as an inductive loop)
        g = _single_gen(node)
        if g.ifs:
            raise OutOfReach('filtered comprehension as an inductive loop')
        tmp = f'__comp{comp_ordinal(frame, node)}'
        frame.env[tmp] = S(ip.ctx.alloc_list([]))
        body = ast.Expr(value=ast.Call(func=ast.Attribute(value=ast.Name(id=tmp, ctx=ast.Load()), attr='append', ctx=ast.Load()),
                                       args=[node.elt], keywords=[]))
        loop = ast.For(target=g.target, iter=g.iter, body=[body], orelse=[], lineno=node.lineno, col_offset=node.col_offset)
        ast.fix_missing_locations(loop)
        seq = iteration(ip, ip.eval(frame, g.iter))
        if seq[0] == 'concrete':
            ip.exec(frame, loop)
        else:
            inductive_loop(ip, frame, loop, spec, seq, tag=f'{frame.qual}.comp{comp_ordinal(frame, node)}')
        return frame.env[tmp]
    return _map_list(ip, frame, node)


def _map_list(ip, frame, node):
    ctx = ip.ctx
    g = _single_gen(node)
    seq = iteration(ip, ip.eval(frame, g.iter))
    sub = Frame(frame.module, frame.qual, {'__parent__': frame.env}, None)
    if seq[0] == 'concrete':
        out = []
        for item in seq[1]:
            ip.assign(sub, g.target, item)
            if all(ctx.test(ip.eval(sub, cond)) for cond in g.ifs):
                out.append(ip.eval(sub, node.elt))
        return S(ctx.alloc_list(out))
    if g.ifs:
        raise OutOfReach('filtered comprehension over a symbolic iterable')
    # [f(x) for x in L] with f free of effects on a generic element: element-wise lambda
    n = seq[1](ctx.heap)
    j = ctx.fresh('j_map', Int)
    heap_before = ctx.heap
    nb = len(ctx.pc)
    ip.assign(sub, g.target, seq[2](ctx.heap, j))
    pos_before = ctx.real_forks
    val = ip.eval(sub, node.elt)
    if ctx.real_forks != pos_before or ctx.heap is not heap_before:
        raise OutOfReach('comprehension element forks or has effects')
    vt = ctx.to_term(val)
    els = z3.Lambda([j], vt)
    # facts added while evaluating the generic element (heap well-formedness instances, callee ensures) hold
    # for an arbitrary index j and stay in the path condition
    nref, ctx.heap = ctx.heap.new_list(n, els)
    return S(VList(nref))


def genexp_join(ip, sep, gen):
    """sep.join(f(x) for x in L)"""
    ctx = ip.ctx
    hook = ctx.cfg.hooks.get('genexp_join')
    if hook is not None:
        r = hook(ip, sep, gen)
        if r is not None:
            return r
    lst = _map_list(ip, gen.f['frame'], gen.f['node'])
    from .core import HeapSort
    f = z3.Function('STR_JOIN', Str, HeapSort, V, Str)
    return T(f(sep, ctx.heap.term(), lst.t))


def first_match(ip, gen, default):
    """next((E for TARGET in ITER if P), default): the first element satisfying P (with the quantified
    none-before clause), or default."""
    ctx = ip.ctx
    node, frame = gen.f['node'], gen.f['frame']
    g = _single_gen(node)
    itv = ip.eval(frame, g.iter)
    rev = False
    if isinstance(itv, Obj) and itv.kind == 'reversed':
        inner = itv.f['inner']
        if isinstance(inner, Obj) and inner.kind == 'enumlist':
            itv = Obj('enumerate', inner=inner.f['inner'])
            rev = True
    seq = iteration(ip, itv)
    sub = Frame(frame.module, frame.qual, {'__parent__': frame.env}, None)
    if seq[0] == 'concrete':
        items = list(reversed(seq[1])) if rev else seq[1]
        for item in items:
            ip.assign(sub, g.target, item)
            if all(ctx.test(ip.eval(sub, cond)) for cond in g.ifs):
                return ip.eval(sub, node.elt)
        if default is None:
            raise_('StopIteration', '')
        return default
    n = seq[1](ctx.heap)

    def pred_at(j):
        """z3 Bool: the filter holds at index j (must be fork-free and effect-free)"""
        heap_before = ctx.heap
        nb = len(ctx.pc)
        pos_before = ctx.real_forks
        fr = Frame(frame.module, frame.qual, {'__parent__': frame.env}, None)
        hook_elem = ctx.cfg.hooks.get('first_match_elem')
        if hook_elem is not None:
            hook_elem(ip, gen, j)
        ip.assign(fr, g.target, seq[2](ctx.heap, j))
        conds = []
        for cond in g.ifs:
            t = ctx.truthy(ip.eval(fr, cond))
            conds.append(z3.BoolVal(t) if isinstance(t, bool) else t)
        if ctx.real_forks != pos_before or ctx.heap is not heap_before:
            raise OutOfReach('first-match filter forks or has effects')
        return z3.And(conds) if conds else z3.BoolVal(True), fr

    hook = ctx.cfg.hooks.get('first_match')
    found = ctx.fresh('found', Bool)
    p = ctx.fresh('ixfirst', Int)
    pj, _ = pred_at(p)
    q = z3.Int('q!fm')
    pq, _ = pred_at(q)
    if rev:
        none_other = z3.ForAll([q], z3.Implies(z3.And(q > p, q < n), z3.Not(pq)))
    else:
        none_other = z3.ForAll([q], z3.Implies(z3.And(q >= 0, q < p), z3.Not(pq)))
    none_at_all = z3.ForAll([q], z3.Implies(z3.And(q >= 0, q < n), z3.Not(pq)))
    if hook is not None:
        hook(ip, gen, p, n, found)
    if ctx.branch(found):
        ctx.assume(z3.And(p >= 0, p < n, pj, none_other))
        fr = Frame(frame.module, frame.qual, {'__parent__': frame.env}, None)
        ip.assign(fr, g.target, seq[2](ctx.heap, p))
        return ip.eval(fr, node.elt)
    ctx.assume(none_at_all)
    if default is None:
        raise_('StopIteration', '')
    return default


# ---------------------------------------------------------------------------------------------
# modular calls
# ---------------------------------------------------------------------------------------------

class CallView:
    """What a contract sees of one call: arguments, pre-heap, post-heap."""

    def __init__(self, ip, args, kwargs, heap):
        self.ip, self.ctx, self.args, self.kwargs, self.heap = ip, ip.ctx, args, kwargs, heap
        self.heap_after = heap

    def arg(self, i):
        return norm(self.ip, self.args[i])

    def term(self, i):
        return self.ctx.to_term(self.args[i])


def apply_contract(ip, contract, args, kwargs):
    """Use a callee by contract: prove requires, havoc the frame, assume ensures."""
    return contract.apply(ip, args, kwargs)


def footprint_term(ctx, heap):
    """The heap term a tree-recursive spec function is applied to: temporaries owned by the function under
    verification (its argument list, objects it allocated) are masked back to their pre-state (see
    contracts.value_c.footprint_heap)."""
    from .core import HeapSort
    base = ctx.ghost.get('pre_heap')
    if base is None:
        return heap.term()
    h0, temps = base
    r = z3.Int('r!fp')
    keep = z3.And(r < h0.alloc, *[r != t for t in temps])

    def mask(cur, old):
        return z3.Lambda([r], z3.If(keep, z3.Select(cur, r), z3.Select(old, r)))
    return HeapSort.mkheap(mask(heap.LEN, h0.LEN), mask(heap.ELS, h0.ELS), mask(heap.HAS, h0.HAS), mask(heap.VAL, h0.VAL),
                           mask(heap.NK, h0.NK), mask(heap.KEY, h0.KEY))
