"""pyvc.concretize — turns a z3 counter-model into a concrete object graph (JSON) for native replay, and a
concrete object graph back into a ground z3 heap (for evaluating contracts on a native execution)."""
import z3
from fractions import Fraction
from .core import (V, Heap, VNone, VBool, VInt, VFloat, VStr, VList, VDict, VDate, VFunc, VRegex, VOther, Int, Str,
                   ArrIntV, ArrStrV, ArrStrB, ArrIntS)

MAX_LIST = 6
MAX_KEYS = 5
_PROBE = None


def probe_keys():
    """string constants of the repo sources: candidate dict keys to look for in a counter-model"""
    global _PROBE
    if _PROBE is None:
        import ast
        from .source import Repo
        keys = set()
        for m in Repo().modules.values():
            for n in ast.walk(m.tree):
                if isinstance(n, ast.Constant) and isinstance(n.value, str) and 0 < len(n.value) <= 24 and '\n' not in n.value:
                    keys.add(n.value)
        _PROBE = sorted(keys)
    return _PROBE


class Graph:
    def __init__(self):
        self.objects = {}

    def value(self, model, heap, term, depth=4):
        v = model.eval(term, model_completion=True)
        name = v.decl().name()
        if name == 'VNone':
            return None
        if name == 'VBool':
            return z3.is_true(v.arg(0))
        if name == 'VInt':
            return v.arg(0).as_long()
        if name == 'VFloat':
            a = v.arg(0)
            if z3.is_rational_value(a):
                fr = a.as_fraction()
                return {'$float': f'{fr.numerator}/{fr.denominator}'}
            return {'$float': '1/3'}
        if name == 'VStr':
            return v.arg(0).as_string() if z3.is_string_value(v.arg(0)) else ''
        if name == 'VList':
            ref = v.arg(0).as_long()
            oid = f'L{ref}'
            if oid not in self.objects:
                n = model.eval(heap.llen(v.arg(0)), model_completion=True).as_long()
                n = max(0, min(n, MAX_LIST))
                self.objects[oid] = {'kind': 'list', 'items': []}
                if depth > 0:
                    self.objects[oid]['items'] = [self.value(model, heap, heap.lget(v.arg(0), z3.IntVal(i)), depth - 1)
                                                  for i in range(n)]
            return {'$ref': oid}
        if name == 'VDict':
            ref = v.arg(0).as_long()
            oid = f'D{ref}'
            if oid not in self.objects:
                nk = model.eval(heap.dnk(v.arg(0)), model_completion=True).as_long()
                nk = max(0, min(nk, MAX_KEYS))
                self.objects[oid] = {'kind': 'dict', 'items': []}
                if depth > 0:
                    seen = set()
                    for i in range(nk):
                        k = model.eval(heap.dkey(v.arg(0), z3.IntVal(i)), model_completion=True)
                        ks = k.as_string() if z3.is_string_value(k) else ''
                        if ks in seen:
                            continue
                        seen.add(ks)
                        has = model.eval(heap.dhas(v.arg(0), k), model_completion=True)
                        if not z3.is_true(has):
                            continue
                        self.objects[oid]['items'].append([ks, self.value(model, heap, heap.dget(v.arg(0), k), depth - 1)])
                    if len(self.objects[oid]['items']) < MAX_KEYS:
                        for ks in probe_keys():
                            if ks in seen:
                                continue
                            k = z3.StringVal(ks)
                            if z3.is_true(model.eval(heap.dhas(v.arg(0), k), model_completion=True)):
                                seen.add(ks)
                                self.objects[oid]['items'].append([ks, self.value(model, heap, heap.dget(v.arg(0), k), depth - 1)])
                                if len(self.objects[oid]['items']) >= MAX_KEYS + 3:
                                    break
            return {'$ref': oid}
        if name == 'VDate':
            return {'$date': [v.arg(0).as_long(), v.arg(1).as_long(), v.arg(2).as_long()]}
        if name == 'VFunc':
            return {'$func': v.arg(0).as_long()}
        if name == 'VRegex':
            return {'$regex': v.arg(0).as_long()}
        return {'$other': str(v.arg(0)) if v.num_args() else 'other'}


def concretize_inputs(contract, model, res):
    if res is None:
        return None
    K = res.ghost.get('K')
    if K is None:
        return None
    if hasattr(contract, 'concretize'):
        return contract.concretize(model, res)
    g = Graph()
    args = [g.value(model, K.heap, K.ctx.to_term(a), depth=6) for a in K.args]
    out = {'objects': g.objects, 'args': args}
    if hasattr(contract, 'concretize_extra'):
        out['extra'] = contract.concretize_extra(model, K)
    return out


# ---------------------------------------------------------------------------------------------
# concrete graph -> ground z3 heap
# ---------------------------------------------------------------------------------------------

def ref_num(oid):
    return int(oid[1:])


def ground_value(x):
    if x is None:
        return VNone
    if x is True or x is False:
        return VBool(z3.BoolVal(x))
    if isinstance(x, int):
        return VInt(z3.IntVal(x))
    if isinstance(x, str):
        return VStr(z3.StringVal(x))
    if isinstance(x, float):
        fr = Fraction(x)
        return VFloat(z3.RealVal(f'{fr.numerator}/{fr.denominator}'))
    if isinstance(x, dict):
        if '$ref' in x:
            oid = x['$ref']
            return VList(z3.IntVal(ref_num(oid))) if oid[0] == 'L' else VDict(z3.IntVal(ref_num(oid)))
        if '$float' in x:
            return VFloat(z3.RealVal(x['$float']))
        if '$date' in x:
            return VDate(z3.IntVal(x['$date'][0]), z3.IntVal(x['$date'][1]), z3.IntVal(x['$date'][2] if len(x['$date']) > 2 else 0))
        if '$func' in x:
            return VFunc(z3.IntVal(x['$func']))
        if '$regex' in x:
            return VRegex(z3.IntVal(x['$regex']))
        if '$other' in x:
            try:
                return VOther(z3.IntVal(int(x['$other'])))
            except (ValueError, TypeError):
                return VOther(z3.IntVal(-99))
        if '$nonfinite' in x:
            return VOther(z3.IntVal(-98))
        if '$tuple' in x:
            return VOther(z3.IntVal(-97))
    raise ValueError(f'cannot ground {x!r}')


def ground_heap(objects, alloc):
    LEN = z3.K(Int, z3.IntVal(0))
    ELS = z3.K(Int, z3.K(Int, VNone))
    HAS = z3.K(Int, z3.K(Str, z3.BoolVal(False)))
    VAL = z3.K(Int, z3.K(Str, VNone))
    NK = z3.K(Int, z3.IntVal(0))
    KEY = z3.K(Int, z3.K(Int, z3.StringVal('')))
    for oid, d in objects.items():
        r = z3.IntVal(ref_num(oid))
        if d['kind'] == 'list':
            els = z3.K(Int, VNone)
            for ix, item in enumerate(d['items']):
                els = z3.Store(els, ix, ground_value(item))
            LEN = z3.Store(LEN, r, z3.IntVal(len(d['items'])))
            ELS = z3.Store(ELS, r, els)
        else:
            has = z3.K(Str, z3.BoolVal(False))
            val = z3.K(Str, VNone)
            keys = z3.K(Int, z3.StringVal(''))
            n = 0
            for k, v in d['items']:
                if not isinstance(k, str):
                    continue
                has = z3.Store(has, z3.StringVal(k), z3.BoolVal(True))
                val = z3.Store(val, z3.StringVal(k), ground_value(v))
                keys = z3.Store(keys, n, z3.StringVal(k))
                n += 1
            HAS = z3.Store(HAS, r, has)
            VAL = z3.Store(VAL, r, val)
            NK = z3.Store(NK, r, z3.IntVal(n))
            KEY = z3.Store(KEY, r, keys)
    return Heap(LEN, ELS, HAS, VAL, NK, KEY, z3.IntVal(alloc))
