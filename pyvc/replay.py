"""pyvc.replay — replays concrete inputs against the real code (native CPython, current working tree) and
evaluates the very same contract clauses on the observed execution."""
import json
import os
import subprocess
import z3

from .source import Repo
from .interp import Engine, Config, Ctx, Interp, make_exc, BUILTIN_EXC
from .contract import Outcome, labelled, zb
from .models_loops import CallView
from .core import S, C
from .concretize import ground_heap, ground_value, ref_num

NATIVE_PY = os.environ.get('PYVC_NATIVE_PYTHON', '/venv/bin/python')
DRIVER = os.path.join(os.path.dirname(os.path.dirname(os.path.abspath(__file__))), 'native', 'driver.py')


def run_native(module, function, inputs, timeout=60):
    objects = inputs['objects']
    next_id = max([ref_num(o) for o in objects] + [0]) + 1
    # the driver keys objects by id string and needs '$ref' ids to be those strings
    job = {'objects': objects, 'module': module, 'function': function, 'args': inputs['args'], 'next_id': next_id,
           'native_pre': inputs.get('native_pre', [])}
    text = json.dumps(job)
    # the driver distinguishes list/dict ids by type when allocating new ones
    p = subprocess.run([NATIVE_PY, DRIVER], input=text, capture_output=True, text=True, timeout=timeout,
                       env={**os.environ, 'PYTHONPATH': os.path.join(os.environ.get('PYVC_REPO', '/repo'), 'src')})
    if p.returncode != 0:
        return None, p.stderr[-2000:], next_id
    return json.loads(p.stdout), None, next_id


def evaluate_contract(contract, inputs, observed, next_id, timeout_ms=10000):
    """Evaluate each post clause of `contract` on the observed native execution. Returns {label: True|False|None}."""
    repo = Repo()
    engine = Engine(repo, Config())
    ctx = Ctx(engine, [])
    ip = Interp(ctx)
    h0 = ground_heap(inputs['objects'], next_id)
    post_objects = observed['objects']
    alloc1 = max([ref_num(o) for o in post_objects] + [next_id - 1]) + 1
    h1 = ground_heap(post_objects, alloc1)
    ctx.heap = h0
    args = [S(ground_value(a)) for a in inputs['args']]
    K = CallView(ip, args, {}, h0)
    K.heap_after = h1
    ctx.heap = h1
    if observed['kind'] == 'return':
        out = Outcome('return', value=S(ground_value(observed['value'])))
    else:
        cls = None
        known = set(BUILTIN_EXC)
        for m in repo.modules.values():
            known |= set(m.classes)
        for name in observed['exc_mro']:
            if name in known:
                cls = name
                break
        fields = {k: S(ground_value(v)) for k, v in observed.get('exc_fields', {}).items()}
        exc = make_exc(cls or 'BaseException', [])
        exc.f['fields'] = fields
        out = Outcome('raise', exc=exc)
    subst = contract.ground_subst(inputs, h0) if hasattr(contract, 'ground_subst') else []
    if hasattr(contract, 'replay_prepare'):
        contract.replay_prepare(ctx, K, inputs, h0, h1)
    verdicts = {}
    for label, f in labelled(contract.post(K, out), 'post'):
        f = zb(f)
        if subst:
            f = z3.substitute(f, *subst)
        s = z3.Solver()
        s.set('timeout', timeout_ms)
        for p in ctx.pc:
            s.add(p)
        s.add(z3.Not(zb(f)))
        r = s.check()
        if r == z3.unsat:
            verdicts[label] = True
        elif r == z3.sat:
            # definitely violated only if the clause itself is unsatisfiable on the observed execution
            # (clauses mentioning uninterpreted dependency functions stay undetermined)
            s2 = z3.Solver()
            s2.set('timeout', timeout_ms)
            for p in ctx.pc:
                s2.add(p)
            s2.add(zb(f))
            verdicts[label] = False if s2.check() == z3.unsat else None
        else:
            verdicts[label] = None
    pre_ok = {}
    for label, f in labelled(contract.pre(CallView(ip, args, {}, h0)), 'pre'):
        f = zb(f)
        if subst:
            f = z3.substitute(f, *subst)
        if hasattr(contract, 'replay_skip_pre') and label in contract.replay_skip_pre:
            continue
        s = z3.Solver()
        s.set('timeout', timeout_ms)
        s.add(z3.Not(f))
        r = s.check()
        pre_ok[label] = True if r == z3.unsat else (False if r == z3.sat else None)
    return verdicts, pre_ok


def replay(contract, inputs):
    module, function = contract.qual.split('.', 1)
    observed, err, next_id = run_native(module, function, inputs)
    if observed is None:
        return {'error': err}
    if observed.get('kind') == 'precondition-failed':
        return {'observed': observed, 'reproduced': False}
    verdicts, pre_ok = evaluate_contract(contract, inputs, observed, next_id)
    return {'observed': {k: observed[k] for k in observed if k != 'objects'}, 'post': verdicts, 'pre': pre_ok,
            'reproduced': any(v is False for v in verdicts.values()) and all(v is not False for v in pre_ok.values())}


def run_witness(code, timeout=60):
    """runs a fixed native witness snippet against the current tree; returns its `result` dict"""
    p = subprocess.run([NATIVE_PY, DRIVER], input=json.dumps({'native_code': code}), capture_output=True, text=True,
                       timeout=timeout,
                       env={**os.environ, 'PYTHONPATH': os.path.join(os.environ.get('PYVC_REPO', '/repo'), 'src')})
    if p.returncode != 0:
        return {'error': p.stderr[-1500:]}
    try:
        return json.loads(p.stdout)
    except ValueError:
        return {'error': p.stdout[-500:]}
