"""pyvc.models_math — math.* : uninterpreted real functions with CPython's domain errors."""
import z3
from .core import C, S, I, R, B, Obj, Real
from .interp import OutOfReach
from .models_ops import norm, numkind, real_term, int_term, raise_
from .models_calls import mathfn, used


def math_call(ip, name, args):
    ctx = ip.ctx
    vals = [norm(ip, a) for a in args]
    if name in ('isnan', 'isinf') and isinstance(vals[0], Obj) and vals[0].kind == 'nonfinite':
        nf = vals[0]
        if nf.f['value'] is None:
            if 'isnan' not in nf.f:
                nf.f['isnan'] = ctx.fresh('isnan', z3.BoolSort())
            return B(nf.f['isnan']) if name == 'isnan' else B(z3.Not(nf.f['isnan']))
        v = nf.f['value']
        return C(v != v) if name == 'isnan' else C(v in (float('inf'), float('-inf')))
    for v in vals:
        if numkind(ip, v) is None:
            raise_('TypeError', 'must be real number')
    from .models_ops import FLOAT_MAX_INT
    for v in vals:
        if name not in ('floor', 'ceil') and numkind(ip, v) == 'int' and not isinstance(v, C):
            iv = int_term(ip, v)
            if ctx.branch(z3.Or(iv >= FLOAT_MAX_INT, iv <= -FLOAT_MAX_INT)):
                raise_('OverflowError', 'int too large to convert to float')
    xs = [real_term(ip, v) for v in vals]
    used('math.*: uninterpreted real functions; ValueError exactly on CPython domain errors; int arguments converted')
    if name in ('floor', 'ceil'):
        x = xs[0]
        if numkind(ip, vals[0]) == 'int':
            return norm(ip, I(int_term(ip, vals[0])))
        fl = z3.ToInt(x)
        return norm(ip, I(fl if name == 'floor' else z3.If(z3.ToReal(fl) == x, fl, fl + 1)))
    if name in ('acos', 'asin'):
        if ctx.branch(z3.Or(xs[0] < -1, xs[0] > 1)):
            raise_('ValueError', 'math domain error')
        return R(mathfn(name)(xs[0]))
    if name == 'sqrt':
        if ctx.branch(xs[0] < 0):
            raise_('ValueError', 'math domain error')
        return R(mathfn(name)(xs[0]))
    if name == 'log':
        if ctx.branch(xs[0] <= 0):
            raise_('ValueError', 'math domain error')
        if len(xs) == 1:
            return R(mathfn('log')(xs[0]))
        if ctx.branch(xs[1] <= 0):
            raise_('ValueError', 'math domain error')
        if ctx.branch(xs[1] == 1):
            raise_('ZeroDivisionError', 'float division by zero')
        return R(mathfn('log')(xs[0]) / mathfn('log')(xs[1]))
    if name in ('atan', 'cos', 'sin', 'tan'):
        return R(mathfn(name)(xs[0]))
    if name == 'atan2':
        return R(mathfn('atan2', 2)(xs[0], xs[1]))
    if name in ('isnan', 'isinf'):
        return C(False)
    raise OutOfReach(f'math.{name}')
