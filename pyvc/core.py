"""pyvc.core — z3 sorts, the value datatype, the heap model and meta-level values.

Everything symbolic in pyvc is built from the definitions in this file:

  V      one z3 datatype for Python values as BareScript sees them
  Heap   functional heap: lists are (LEN, ELS), dicts are (HAS, VAL, NK, KEY)
  Val    meta-level values handled by the symbolic interpreter
"""

import z3

# ---------------------------------------------------------------------------------------------
# Sorts
# ---------------------------------------------------------------------------------------------

Str = z3.StringSort()
Int = z3.IntSort()
Real = z3.RealSort()
Bool = z3.BoolSort()

_V = z3.Datatype('V')
_V.declare('VNone')
_V.declare('VBool', ('b', Bool))
_V.declare('VInt', ('i', Int))
_V.declare('VFloat', ('r', Real))
_V.declare('VStr', ('s', Str))
_V.declare('VList', ('lref', Int))
_V.declare('VDict', ('dref', Int))
# kind: 0 = datetime.date (not a datetime), 1 = naive datetime, 2 = aware datetime
# us: microseconds since the epoch of the *local naive* reading (for kind 2: of the UTC instant)
# off: for kind 2, the UTC offset (microseconds) of the value's own tzinfo; 0 otherwise
_V.declare('VDate', ('kind', Int), ('us', Int), ('off', Int))
_V.declare('VFunc', ('fid', Int))
_V.declare('VRegex', ('rid', Int))
_V.declare('VOther', ('oid', Int))   # any other host object (uuid.UUID, tuples leaking in, ...)
V = _V.create()

VNone = V.VNone
VBool, VInt, VFloat, VStr, VList, VDict, VFunc, VRegex, VOther = (
    V.VBool, V.VInt, V.VFloat, V.VStr, V.VList, V.VDict, V.VFunc, V.VRegex, V.VOther)


def VDate(kind, us, off=None):
    return V.VDate(kind, us, z3.IntVal(0) if off is None else off)
is_none, is_bool, is_int, is_float, is_str, is_list, is_dict, is_date, is_func, is_regex, is_other = (
    V.is_VNone, V.is_VBool, V.is_VInt, V.is_VFloat, V.is_VStr, V.is_VList, V.is_VDict, V.is_VDate,
    V.is_VFunc, V.is_VRegex, V.is_VOther)

ArrIntV = z3.ArraySort(Int, V)
ArrStrV = z3.ArraySort(Str, V)
ArrStrB = z3.ArraySort(Str, Bool)
ArrIntS = z3.ArraySort(Int, Str)

LenSort = z3.ArraySort(Int, Int)
ElsSort = z3.ArraySort(Int, ArrIntV)
HasSort = z3.ArraySort(Int, ArrStrB)
ValSort = z3.ArraySort(Int, ArrStrV)
NkSort = z3.ArraySort(Int, Int)
KeySort = z3.ArraySort(Int, ArrIntS)

# A first-class heap value, used as an argument of uninterpreted spec functions
_H = z3.Datatype('Heap')
_H.declare('mkheap', ('LEN', LenSort), ('ELS', ElsSort), ('HAS', HasSort), ('VAL', ValSort),
           ('NK', NkSort), ('KEY', KeySort))
HeapSort = _H.create()


def sval(term):
    """simplify and return"""
    return z3.simplify(term)


def is_t(b):
    return z3.is_true(b)


def is_f(b):
    return z3.is_false(b)


# ---------------------------------------------------------------------------------------------
# Type predicates on V (Python isinstance semantics: bool is a subclass of int)
# ---------------------------------------------------------------------------------------------

def p_isinstance_int(v):
    return z3.Or(is_bool(v), is_int(v))


def p_isinstance_number(v):      # isinstance(v, (int, float))
    return z3.Or(is_bool(v), is_int(v), is_float(v))


def p_number(v):                 # BareScript number: int or float and not bool
    return z3.Or(is_int(v), is_float(v))


def numval(v):
    """The real value of a number-like V (bool -> 0/1)."""
    return z3.If(is_int(v), z3.ToReal(V.i(v)),
                 z3.If(is_float(v), V.r(v),
                       z3.If(z3.And(is_bool(v), V.b(v)), z3.RealVal(1), z3.RealVal(0))))


def intval(v):
    """The int value of an int-like V (bool -> 0/1); meaningless otherwise."""
    return z3.If(is_int(v), V.i(v), z3.If(z3.And(is_bool(v), V.b(v)), z3.IntVal(1), z3.IntVal(0)))


def trunc(r):
    """int(r) for a real: truncation toward zero."""
    return z3.If(r >= 0, z3.ToInt(r), -z3.ToInt(-r))


def p_integral(v):
    """number-like v has an integral value"""
    return z3.Or(is_int(v), is_bool(v), z3.And(is_float(v), z3.IsInt(V.r(v))))


# ---------------------------------------------------------------------------------------------
# Heap
# ---------------------------------------------------------------------------------------------

class Heap:
    """Functional heap. All fields are z3 terms; operations return new Heap objects."""

    __slots__ = ('LEN', 'ELS', 'HAS', 'VAL', 'NK', 'KEY', 'alloc')

    def __init__(self, LEN, ELS, HAS, VAL, NK, KEY, alloc):
        self.LEN, self.ELS, self.HAS, self.VAL, self.NK, self.KEY, self.alloc = LEN, ELS, HAS, VAL, NK, KEY, alloc

    @staticmethod
    def fresh(tag):
        return Heap(z3.Const(f'LEN{tag}', LenSort), z3.Const(f'ELS{tag}', ElsSort),
                    z3.Const(f'HAS{tag}', HasSort), z3.Const(f'VAL{tag}', ValSort),
                    z3.Const(f'NK{tag}', NkSort), z3.Const(f'KEY{tag}', KeySort),
                    z3.Int(f'ALLOC{tag}'))

    def copy(self, **kw):
        h = Heap(self.LEN, self.ELS, self.HAS, self.VAL, self.NK, self.KEY, self.alloc)
        for k, v in kw.items():
            setattr(h, k, v)
        return h

    def term(self):
        return HeapSort.mkheap(self.LEN, self.ELS, self.HAS, self.VAL, self.NK, self.KEY)

    @staticmethod
    def of_term(t, alloc):
        return Heap(HeapSort.LEN(t), HeapSort.ELS(t), HeapSort.HAS(t), HeapSort.VAL(t),
                    HeapSort.NK(t), HeapSort.KEY(t), alloc)

    # lists
    def llen(self, ref):
        return z3.Select(self.LEN, ref)

    def lget(self, ref, i):
        return z3.Select(z3.Select(self.ELS, ref), i)

    def lels(self, ref):
        return z3.Select(self.ELS, ref)

    def lset(self, ref, i, v):
        return self.copy(ELS=z3.Store(self.ELS, ref, z3.Store(self.lels(ref), i, v)))

    def lsetall(self, ref, n, els):
        return self.copy(LEN=z3.Store(self.LEN, ref, n), ELS=z3.Store(self.ELS, ref, els))

    def lsetlen(self, ref, n):
        return self.copy(LEN=z3.Store(self.LEN, ref, n))

    # dicts
    def dhas(self, ref, k):
        return z3.Select(z3.Select(self.HAS, ref), k)

    def dget(self, ref, k):
        return z3.Select(z3.Select(self.VAL, ref), k)

    def dnk(self, ref):
        return z3.Select(self.NK, ref)

    def dkey(self, ref, i):
        return z3.Select(z3.Select(self.KEY, ref), i)

    def dset(self, ref, k, v):
        """d[k] = v: insertion order kept — new keys go last."""
        has = self.dhas(ref, k)
        nk = self.dnk(ref)
        return self.copy(
            HAS=z3.Store(self.HAS, ref, z3.Store(z3.Select(self.HAS, ref), k, z3.BoolVal(True))),
            VAL=z3.Store(self.VAL, ref, z3.Store(z3.Select(self.VAL, ref), k, v)),
            NK=z3.Store(self.NK, ref, z3.If(has, nk, nk + 1)),
            KEY=z3.Store(self.KEY, ref, z3.If(has, z3.Select(self.KEY, ref),
                                              z3.Store(z3.Select(self.KEY, ref), nk, k))))

    def new(self):
        """allocate a reference"""
        ref = self.alloc
        return ref, self.copy(alloc=self.alloc + 1)

    def new_list(self, n, els):
        ref, h = self.new()
        return ref, h.lsetall(ref, n, els)

    def new_dict_empty(self):
        ref, h = self.new()
        h = h.copy(HAS=z3.Store(h.HAS, ref, z3.K(Str, z3.BoolVal(False))),
                   NK=z3.Store(h.NK, ref, z3.IntVal(0)))
        return ref, h


DBL_MAX = z3.RealVal(2 ** 1024 - 2 ** 971)


def float_in_range(v):
    """a float value is a finite double"""
    return z3.Implies(is_float(v), z3.And(V.r(v) <= DBL_MAX, V.r(v) >= -DBL_MAX))


def wf_value(h, v):
    """Heap well-formedness instance for a value loaded from (or given with) heap h:
    container references are already allocated, lengths are non-negative."""
    return z3.And(
        z3.Implies(is_list(v), z3.And(V.lref(v) < h.alloc, V.lref(v) >= 0, h.llen(V.lref(v)) >= 0)),
        z3.Implies(is_dict(v), z3.And(V.dref(v) < h.alloc, V.dref(v) >= 0, h.dnk(V.dref(v)) >= 0)),
        z3.Implies(is_date(v), z3.And(V.kind(v) >= 0, V.kind(v) <= 2,
                                      V.us(v) >= -62135596800 * 10 ** 6, V.us(v) < 253402300800 * 10 ** 6,
                                      z3.Implies(V.kind(v) != 2, V.off(v) == 0),
                                      V.off(v) > -86400 * 10 ** 6, V.off(v) < 86400 * 10 ** 6)))


# ---------------------------------------------------------------------------------------------
# Meta-level values
# ---------------------------------------------------------------------------------------------

class Val:
    pass


class C(Val):
    """A concrete Python value (None, bool, int, float, str, tuple, or a read-only module constant)."""
    __slots__ = ('py',)

    def __init__(self, py):
        self.py = py

    def __repr__(self):
        return f'C({self.py!r})'


class S(Val):
    """A symbolic BareScript/Python value: a z3 term of sort V."""
    __slots__ = ('t',)

    def __init__(self, t):
        self.t = t

    def __repr__(self):
        return f'S({self.t})'


class B(Val):
    """A symbolic Python bool (z3 Bool)."""
    __slots__ = ('t',)

    def __init__(self, t):
        self.t = t

    def __repr__(self):
        return f'B({self.t})'


class I(Val):
    """A symbolic Python int (z3 Int)."""
    __slots__ = ('t',)

    def __init__(self, t):
        self.t = t

    def __repr__(self):
        return f'I({self.t})'


class R(Val):
    """A symbolic Python float (z3 Real)."""
    __slots__ = ('t',)

    def __init__(self, t):
        self.t = t

    def __repr__(self):
        return f'R({self.t})'


class T(Val):
    """A symbolic Python str (z3 String)."""
    __slots__ = ('t',)

    def __init__(self, t):
        self.t = t

    def __repr__(self):
        return f'T({self.t})'


class Obj(Val):
    """A meta-level object that never lives in the symbolic heap: tuples, function references, classes,
    exception instances, match objects, partials, iterators, sets, modules."""
    __slots__ = ('kind', 'f')

    def __init__(_s, kind, **fields):
        _s.kind = kind
        _s.f = fields

    def __repr__(self):
        return f'Obj({self.kind}, {self.f})'


def conc_to_term(py):
    """Lift a concrete primitive to a V term (None when not liftable without allocation)."""
    if py is None:
        return VNone
    if py is True or py is False:
        return VBool(z3.BoolVal(py))
    if isinstance(py, int):
        return VInt(z3.IntVal(py))
    if isinstance(py, float):
        if py != py or py in (float('inf'), float('-inf')):
            return None
        from fractions import Fraction
        fr = Fraction(py)
        return VFloat(z3.RealVal(f'{fr.numerator}/{fr.denominator}'))
    if isinstance(py, str):
        return VStr(z3.StringVal(py))
    return None
