"""pyvc.relang — translates the (small) regex dialect used by the repo's patterns into z3 regular expressions, for
regex-LANGUAGE obligations (inclusion, disjointness, suffix facts) that hold for all strings, unbounded."""
try:
    import re._parser as sre_parse
except ImportError:  # pragma: no cover
    import sre_parse
import z3

DIGIT = z3.Range('0', '9')
SPACE = z3.Union(*[z3.Re(c) for c in ' \t\n\r\x0b\x0c'])
WORD = z3.Union(z3.Range('a', 'z'), z3.Range('A', 'Z'), DIGIT, z3.Re('_'))


class Untranslatable(Exception):
    pass


def _items(items):
    parts = [_item(op, av) for op, av in items]
    parts = [p for p in parts if p is not None]
    if not parts:
        return z3.Re('')
    return parts[0] if len(parts) == 1 else z3.Concat(*parts)


def _class(av):
    alts = []
    negate = False
    for op, v in av:
        o = str(op)
        if o == 'NEGATE':
            negate = True
        elif o == 'LITERAL':
            alts.append(z3.Re(chr(v)))
        elif o == 'RANGE':
            alts.append(z3.Range(chr(v[0]), chr(v[1])))
        elif o == 'CATEGORY':
            c = str(v)
            if c == 'CATEGORY_DIGIT':
                alts.append(DIGIT)
            elif c == 'CATEGORY_SPACE':
                alts.append(SPACE)
            elif c == 'CATEGORY_WORD':
                alts.append(WORD)
            elif c in ('CATEGORY_NOT_SPACE', 'CATEGORY_NOT_DIGIT', 'CATEGORY_NOT_WORD'):
                base = {'CATEGORY_NOT_SPACE': SPACE, 'CATEGORY_NOT_DIGIT': DIGIT, 'CATEGORY_NOT_WORD': WORD}[c]
                alts.append(z3.Intersect(z3.AllChar(z3.ReSort(z3.StringSort())), z3.Complement(base)))
            else:
                raise Untranslatable(c)
        else:
            raise Untranslatable(o)
    r = alts[0] if len(alts) == 1 else z3.Union(*alts)
    if negate:
        r = z3.Intersect(z3.AllChar(z3.ReSort(z3.StringSort())), z3.Complement(r))
    return r


def _item(op, av):
    o = str(op)
    if o == 'LITERAL':
        return z3.Re(chr(av))
    if o == 'NOT_LITERAL':
        return z3.Intersect(z3.AllChar(z3.ReSort(z3.StringSort())), z3.Complement(z3.Re(chr(av))))
    if o == 'IN':
        return _class(av)
    if o == 'ANY':
        # '.' without DOTALL: any character but a newline
        return z3.Intersect(z3.AllChar(z3.ReSort(z3.StringSort())), z3.Complement(z3.Re('\n')))
    if o in ('MAX_REPEAT', 'MIN_REPEAT'):
        lo, hi, sub = av
        r = _items(sub)
        if hi == sre_parse.MAXREPEAT:
            return z3.Star(r) if lo == 0 else (z3.Plus(r) if lo == 1 else z3.Concat(z3.Loop(r, lo, lo), z3.Star(r)))
        return z3.Loop(r, lo, hi)
    if o == 'SUBPATTERN':
        return _items(av[3])
    if o == 'BRANCH':
        alts = [_items(a) for a in av[1]]
        return alts[0] if len(alts) == 1 else z3.Union(*alts)
    if o == 'AT':
        return None       # anchors are handled by the caller (whole-string languages)
    if o == 'CATEGORY':
        return _class([(op, av)])
    raise Untranslatable(o)


def to_re(pattern):
    """z3 Re for the language of strings the pattern matches ENTIRELY (anchors dropped)"""
    return _items(sre_parse.parse(pattern))


def group_re(pattern, group):
    """z3 Re for the sub-pattern of a capturing group"""
    parsed = sre_parse.parse(pattern)
    names = parsed.state.groupdict
    gid = names.get(group, group)
    found = []

    def walk(items):
        for op, av in items:
            o = str(op)
            if o == 'SUBPATTERN':
                if av[0] == gid:
                    found.append(av[3])
                walk(av[3])
            elif o in ('MAX_REPEAT', 'MIN_REPEAT'):
                walk(av[2])
            elif o == 'BRANCH':
                for a in av[1]:
                    walk(a)
    walk(parsed)
    if not found:
        raise Untranslatable(f'no group {group}')
    return _items(found[0])
