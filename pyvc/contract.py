"""pyvc.contract — function contracts (sidecar) and the verification harness.

A contract is used in two directions by the same clauses:
  * verify(): the function body is executed symbolically from `pre`; each clause of `post` is an obligation
    on every path;
  * apply(): at a call site the caller must prove `pre`; the frame is havocked; `post` is assumed.
"""
import z3
from .core import (V, Heap, wf_value, Int, Str, Real, Bool, Val, C, S, B, I, R, T, Obj)
from .interp import Interp, PyRaise, PathEnd, OutOfReach, make_exc, _Return
from .models_ops import norm
from .models_loops import CallView


class Outcome:
    def __init__(self, kind, value=None, exc=None):
        self.kind, self.value, self.exc = kind, value, exc

    def __repr__(self):
        return f'Outcome({self.kind}, {self.value if self.kind == "return" else self.exc})'


def labelled(res, default='c'):
    if res is None:
        return []
    if z3.is_expr(res) or isinstance(res, bool):
        return [(default, res)]
    out = []
    for ix, item in enumerate(res):
        if isinstance(item, tuple):
            out.append(item)
        else:
            out.append((f'{default}{ix}', item))
    return out


def zb(x):
    return z3.BoolVal(x) if isinstance(x, bool) else x


class FnContract:
    qual = None
    frame = 'pure'        # 'pure': heap unchanged; 'havoc': arbitrary new heap (post may constrain it)
    result = 'value'      # kind of the result symbol at call sites
    inline = ()           # callees executed inline while verifying this function
    loops = {}            # ordinal -> LoopSpec

    def params(self, ip):
        """Symbolic arguments for verification: one well-formed value per parameter by default."""
        fn = ip.repo.function(self.qual)
        out = []
        for p in fn.args.args:
            v = ip.ctx.fresh(p.arg, V)
            ip.ctx.assume(wf_value(ip.ctx.heap, v))
            out.append(S(v))
        return out

    def pre(self, K):
        return []

    def post(self, K, out):
        return []

    def may_raise(self, K):
        """[(exception class name, z3 condition or None for 'may')]"""
        return []

    def axioms(self, K):
        """Definitional instances of specification functions (unfoldings) needed to state pre/post: assumed both
        when verifying and at call sites. They must be instances of the spec functions' definitions only."""
        return []

    # -- call-site use -----------------------------------------------------------------------
    def apply(self, ip, args, kwargs):
        ctx = ip.ctx
        fn = ip.repo.function(self.qual)
        names = [p.arg for p in fn.args.args]
        full = list(args)
        if kwargs or len(full) < len(names):
            env = ip.bind_params(self.qual.split('.')[0], self.qual, fn, args, kwargs)
            full = [env[n] for n in names]
        K = CallView(ip, full, {}, ctx.heap)
        for label, f in labelled(self.pre(K), 'pre'):
            ctx.oblige(f'call:{self.qual}.pre.{label}', zb(f), kind='callee-pre')
        for label, f in labelled(self.axioms(K), 'ax'):
            ctx.assume(zb(f))
        if self.frame == 'havoc':
            for a in full:
                ctx.escape(a)
            h0 = ctx.heap
            if hasattr(self, 'havoc_heap'):
                ctx.heap = self.havoc_heap(ip, h0)
            else:
                ctx.heap = ctx.fresh_heap('call')
                ctx.assume(ctx.heap.alloc >= h0.alloc)
            ctx.heap = ctx.keep_owned(h0, ctx.heap)
        K.heap_after = ctx.heap
        event = {'kind': 'call', 'callee': self.qual, 'args': full, 'heap_before': K.heap, 'heap_after': ctx.heap}
        ctx.ghost.setdefault('events', []).append(event)
        for cls, cond in self.may_raise(K):
            if (ctx.choice(f'raises_{cls.replace(":", "_")}') if cond is None else ctx.branch(cond)):
                exc = self.make_exception(ip, cls)
                out = Outcome('raise', exc=exc)
                event['outcome'] = out
                for label, f in labelled(self.post(K, out), 'post'):
                    ctx.assume(zb(f))
                raise PyRaise(exc)
        res = self.fresh_result(ip)
        out = Outcome('return', value=res)
        event['outcome'] = out
        for label, f in labelled(self.post(K, out), 'post'):
            ctx.assume(zb(f))
        return norm(ip, res)

    def make_exception(self, ip, cls):
        """cls: a class name, or 'sub:<Name>' for an exception of unknown class below <Name>"""
        if cls.startswith('sub:'):
            exc = make_exc(None, [])
            exc.f['cls'] = ('sub', cls[4:])
            return exc
        return make_exc(cls, [])

    def fresh_result(self, ip):
        ctx = ip.ctx
        name = self.qual.split('.')[-1]
        if self.result == 'none':
            return C(None)
        if self.result == 'int':
            return I(ctx.fresh(f'r_{name}', Int))
        if self.result == 'bool':
            return B(ctx.fresh(f'r_{name}', Bool))
        if self.result == 'str':
            return T(ctx.fresh(f'r_{name}', Str))
        if self.result == 'real':
            return R(ctx.fresh(f'r_{name}', Real))
        v = ctx.fresh(f'r_{name}', V)
        ctx.assume(wf_value(ctx.heap, v))
        return S(v)


def verify_run(contract, case=None):
    """The `run(ctx)` function for Engine.explore that checks `contract` against the real body.
    case: optional (label, extra_pre(K)) — one member of a case split of the precondition (the split's
    exhaustiveness is a separate obligation, see case_coverage_run)."""

    def run(ctx):
        ip = Interp(ctx)
        ctx.heap = Heap.fresh('0')
        ctx.assume(ctx.heap.alloc >= 0)
        args = contract.params(ip)
        K = CallView(ip, args, {}, ctx.heap)
        ctx.ghost['K'] = K
        ctx.ghost['args'] = args
        for label, f in labelled(contract.pre(K), 'pre'):
            ctx.assume(zb(f))
        for label, f in labelled(contract.axioms(K), 'ax'):
            ctx.assume(zb(f))
        if case is not None:
            ctx.ghost['case_label'] = case[0]
            for label, f in labelled(case[1](K), 'case'):
                ctx.assume(zb(f))
        ctx.ghost['pre_pc_len'] = len(ctx.pc)
        try:
            val = ip.call_function(contract.qual, list(args))
            out = Outcome('return', value=norm(ip, val))
        except PyRaise as e:
            out = Outcome('raise', exc=e.exc)
        K.heap_after = ctx.heap
        ctx.ghost['out'] = out
        for label, f in labelled(contract.post(K, out), 'post'):
            ctx.oblige(f'{contract.qual}.post.{label}', zb(f), kind='post', outcome=out.kind)
        return out

    return run


def case_coverage_run(contract):
    """One obligation: the cases of the split cover the precondition."""

    def run(ctx):
        ip = Interp(ctx)
        ctx.heap = Heap.fresh('0')
        ctx.assume(ctx.heap.alloc >= 0)
        args = contract.params(ip)
        K = CallView(ip, args, {}, ctx.heap)
        ctx.ghost['K'] = K
        for label, f in labelled(contract.pre(K), 'pre'):
            ctx.assume(zb(f))
        for label, f in labelled(contract.axioms(K), 'ax'):
            ctx.assume(zb(f))
        alts = []
        for clabel, fn in contract.cases():
            alts.append(z3.And([zb(f) for _, f in labelled(fn(K), 'case')]))
        ctx.oblige(f'{contract.qual}.case-split-exhaustive', z3.Or(alts), kind='case-split')
        return Outcome('return', value=C(None))

    return run
