"""pyvc.models_calls — built-in functions, methods, attributes, external (stdlib) callees: the assumed contracts
on dependencies of DESIGN.md 3.8/3.9. Every model in this file is part of the trusted base and is listed in the
evidence under `trusted_base`.
"""

import ast
import re as _re
import math as _math
import z3

from .core import (
    V, VNone, VBool, VInt, VFloat, VStr, VList, VDict, VDate, VFunc, VRegex, VOther,
    is_none, is_bool, is_int, is_float, is_str, is_list, is_dict, is_date, is_func, is_regex, is_other,
    Str, Int, Real, Bool, ArrIntV, ArrStrV, ArrStrB, ArrIntS, Heap, HeapSort, numval, intval, trunc,
    p_isinstance_number, p_isinstance_int, p_integral, wf_value,
    Val, C, S, B, I, R, T, Obj, conc_to_term, is_t, is_f)
from .interp import PyRaise, OutOfReach, make_exc, PathEnd, Frame
from .models_ops import (
    norm, kind_of, resolve_kind, str_term, key_term, real_term, int_term, numkind, raise_, equals, compare,
    contains, subscript, iteration, _bool_val, STR_OF_INT, STR_OF_REAL, dict_remove, binop, unpack, to_S, same_object)

BUILTIN_NAMES = {
    'isinstance', 'len', 'int', 'float', 'str', 'bool', 'list', 'dict', 'tuple', 'set', 'range', 'enumerate',
    'min', 'max', 'abs', 'sorted', 'next', 'iter', 'reversed', 'callable', 'ord', 'chr', 'sum', 'type', 'super',
    'print', 'open', 'zip', 'any', 'all', 'repr', 'complex',
}

TRUSTED = set()     # names of dependency models actually used in a run
TABLE_NAMES = {}    # id(python dict) -> 'module.NAME' for module-level constant tables


def used(name):
    TRUSTED.add(name)


# uninterpreted string/number functions (shared by code and specs)
def ufun(name, *sorts):
    return z3.Function(name, *sorts)


STR_LOWER = ufun('STR_LOWER', Str, Str)
STR_UPPER = ufun('STR_UPPER', Str, Str)
STR_STRIP = ufun('STR_STRIP', Str, Str)
STR_RSTRIP = ufun('STR_RSTRIP', Str, Str)
STR_REPLACE = ufun('STR_REPLACE', Str, Str, Str, Str)
STR_FIND = ufun('STR_FIND', Str, Str, Int, Int)
STR_RFIND = ufun('STR_RFIND', Str, Str, Int, Int, Int)
STR_SPLIT_N = ufun('STR_SPLIT_N', Str, Str, Int)
STR_SPLIT_PARTS = ufun('STR_SPLIT_PARTS', Str, Str, ArrIntS)
STR_SPLITLINES_N = ufun('STR_SPLITLINES_N', Str, Int)
STR_SPLITLINES_PARTS = ufun('STR_SPLITLINES_PARTS', Str, ArrIntS)
STR_ORD = ufun('STR_ORD', Str, Int)
STR_CHR = ufun('STR_CHR', Int, Str)
PARSE_FLOAT_OK = ufun('PARSE_FLOAT_OK', Str, Bool)
PARSE_FLOAT = ufun('PARSE_FLOAT', Str, Real)
PARSE_FLOAT_FINITE = ufun('PARSE_FLOAT_FINITE', Str, Bool)
PARSE_INT_OK = ufun('PARSE_INT_OK', Str, Int, Bool)
PARSE_INT = ufun('PARSE_INT', Str, Int, Int)
JSON_TEXT = ufun('JSON_TEXT', HeapSort, V, V, Str)
MATHFN = {}


def mathfn(name, arity=1):
    if name not in MATHFN:
        MATHFN[name] = ufun('MATH_' + name, *([Real] * arity), Real)
    return MATHFN[name]


# ---------------------------------------------------------------------------------------------
# type predicates
# ---------------------------------------------------------------------------------------------

def type_pred(ip, val, ty):
    """isinstance(val, ty) -> python bool or z3 Bool"""
    ctx = ip.ctx
    if isinstance(ty, Obj) and ty.kind == 'tuple':
        rs = [type_pred(ip, val, t) for t in ty.f['items']]
        if any(r is True for r in rs):
            return True
        rs = [r for r in rs if r is not False]
        return z3.simplify(z3.Or(rs)) if rs else False
    name = None
    if isinstance(ty, Obj):
        if ty.kind == 'builtin':
            name = ty.f['name']
        elif ty.kind == 'modattr':
            name = ty.f['name']
        elif ty.kind == 'regextype':
            name = 'REGEX_TYPE'
        elif ty.kind == 'class':
            name = 'class:' + ty.f['name']
    if name is None:
        raise OutOfReach(f'isinstance against {ty!r}')
    val = norm(ip, val)
    if isinstance(val, Obj):
        if val.kind == 'exc' and name.startswith('class:'):
            return ip.exc_isinstance(val, name[6:])
        if val.kind == 'tuple':
            return name == 'tuple'
        if val.kind in ('func', 'partial', 'closure', 'lambda', 'regex', 'match', 'set', 'exc'):
            if name == 'REGEX_TYPE':
                return val.kind == 'regex'
            return False
        raise OutOfReach(f'isinstance of {val.kind}')
    if isinstance(val, C):
        py = val.py
        table = {'str': str, 'bool': bool, 'int': int, 'float': float, 'dict': dict, 'list': list, 'tuple': tuple,
                 'complex': complex}
        if name in table:
            return isinstance(py, table[name])
        return False
    t = ctx.to_term(val)
    preds = {
        'str': is_str(t), 'bool': is_bool(t), 'int': p_isinstance_int(t), 'float': is_float(t),
        'dict': is_dict(t), 'list': is_list(t), 'datetime.date': is_date(t),
        'datetime.datetime': z3.And(is_date(t), V.kind(t) >= 1), 'REGEX_TYPE': is_regex(t),
        'tuple': z3.BoolVal(False), 'uuid.UUID': z3.And(is_other(t), V.oid(t) == -7),
        'complex': z3.And(is_other(t), V.oid(t) == -5),
    }
    if name in preds:
        return z3.simplify(preds[name])
    if name.startswith('class:'):
        return False
    raise OutOfReach(f'isinstance against {name}')


def p_callable(ip, val):
    val = norm(ip, val)
    if isinstance(val, Obj):
        return val.kind in ('func', 'partial', 'closure', 'lambda', 'builtin', 'class', 'bound')
    if isinstance(val, C):
        return False
    if isinstance(val, S):
        return z3.simplify(is_func(val.t))
    return False


# ---------------------------------------------------------------------------------------------
# builtins
# ---------------------------------------------------------------------------------------------

def py_len(ip, val):
    ctx = ip.ctx
    val = norm(ip, val)
    if isinstance(val, C):
        try:
            return C(len(val.py))
        except TypeError as e:
            raise_('TypeError', str(e))
    if isinstance(val, T):
        return norm(ip, I(z3.Length(val.t)))
    if isinstance(val, Obj):
        if val.kind in ('tuple', 'set'):
            return C(len(val.f['items']))
        if val.kind == 'pairs':
            return norm(ip, I(val.f['n']))
        if val.kind == 'dictkeys':
            return py_len(ip, val.f['dict'])
        raise OutOfReach(f'len of {val.kind}')
    if isinstance(val, S):
        k = resolve_kind(ip, val, ('list', 'dict', 'str'))
        if k == 'list':
            return norm(ip, I(z3.simplify(ctx.heap.llen(V.lref(val.t)))))
        if k == 'dict':
            return norm(ip, I(z3.simplify(ctx.heap.dnk(V.dref(val.t)))))
        if k == 'str':
            return norm(ip, I(z3.Length(V.s(val.t))))
        raise_('TypeError', 'object has no len()')
    raise_('TypeError', 'object has no len()')


def py_int(ip, args):
    ctx = ip.ctx
    val = norm(ip, args[0])
    if len(args) == 2:
        # int(text, radix)
        used('int(str, radix): ValueError iff not a literal in that radix; TypeError for a float radix')
        radix = norm(ip, args[1])
        rk = numkind(ip, radix)
        if rk != 'int':
            raise_('TypeError', "'float' object cannot be interpreted as an integer")
        if (kind_of(ip, val) or resolve_kind(ip, val, ('str',))) != 'str':
            raise_('TypeError', "int() can't convert non-string with explicit base")
        s, r = str_term(ip, val), int_term(ip, radix)
        if ctx.branch(z3.Not(z3.Or(r == 0, z3.And(r >= 2, r <= 36)))):
            raise_('ValueError', 'int() base must be >= 2 and <= 36, or 0')
        if ctx.branch(PARSE_INT_OK(s, r)):
            return I(PARSE_INT(s, r))
        raise_('ValueError', 'invalid literal for int()')
    if isinstance(val, C):
        try:
            return C(int(val.py))
        except (ValueError, TypeError, OverflowError) as e:
            raise_(type(e).__name__, str(e))
    if isinstance(val, S) and kind_of(ip, val) is None and ctx.must(p_isinstance_number(val.t)):
        # int() of a number whose int/float kind is not known on this path: no fork
        t = val.t
        return norm(ip, I(z3.simplify(z3.If(p_isinstance_int(t), intval(t), trunc(numval(t))))))
    k = numkind(ip, val)
    if k == 'int':
        return norm(ip, I(int_term(ip, val)))
    if k == 'float':
        return norm(ip, I(z3.simplify(trunc(real_term(ip, val)))))
    sk = kind_of(ip, val) or resolve_kind(ip, val, ('str',))
    if sk == 'str':
        s = str_term(ip, val)
        if ctx.branch(PARSE_INT_OK(s, z3.IntVal(10))):
            return I(PARSE_INT(s, z3.IntVal(10)))
        raise_('ValueError', 'invalid literal for int()')
    raise_('TypeError', 'int() argument must be a string or a number')


def py_float(ip, args):
    ctx = ip.ctx
    val = norm(ip, args[0])
    if isinstance(val, C):
        try:
            r = float(val.py)
        except (ValueError, TypeError, OverflowError) as e:
            raise_(type(e).__name__, str(e))
        if r != r or r in (float('inf'), float('-inf')):
            return Obj('nonfinite', value=r)
        return C(r)
    k = numkind(ip, val)
    if k:
        hook = ctx.cfg.hooks.get('int_to_float')
        if hook is not None and k == 'int':
            hook(ip, int_term(ip, val))
        return R(real_term(ip, val))
    sk = kind_of(ip, val) or resolve_kind(ip, val, ('str',))
    if sk == 'str':
        used('float(str): ValueError iff not a float literal; result may be nan/inf (modelled as a non-finite flag)')
        s = str_term(ip, val)
        if ctx.branch(PARSE_FLOAT_OK(s)):
            if ctx.branch(PARSE_FLOAT_FINITE(s)):
                return R(PARSE_FLOAT(s))
            return Obj('nonfinite', value=None)
        raise_('ValueError', 'could not convert string to float')
    raise_('TypeError', 'float() argument must be a string or a real number')


def py_str(ip, val):
    val = norm(ip, val)
    if isinstance(val, C):
        if isinstance(val.py, (str, int, bool, type(None))) or isinstance(val.py, float):
            return C(str(val.py))
    k = kind_of(ip, val)
    if k is None and isinstance(val, S):
        k = resolve_kind(ip, val, ('int', 'str', 'float', 'none', 'bool'))
        if k == 'none':
            return C('None')
        if k == 'bool':
            return T(z3.If(V.b(val.t), z3.StringVal('True'), z3.StringVal('False')))
        if k == 'else' and ip.ctx.must(is_other(val.t)):
            return T(ufun('STR_OF_OTHER', Int, Str)(V.oid(val.t)))
    if k == 'str':
        return val if not isinstance(val, S) else T(V.s(val.t))
    if k == 'int':
        used('str(int): injective decimal text (STR_OF_INT uninterpreted)')
        return T(STR_OF_INT(int_term(ip, val)))
    if k == 'float':
        used('str(float): float.__repr__ (STR_OF_REAL uninterpreted)')
        return T(STR_OF_REAL(real_term(ip, val)))
    if isinstance(val, Obj) and val.kind == 'exc':
        return T(ip.ctx.fresh('excmsg', Str))
    if isinstance(val, Obj) and val.kind == 'pathobj':
        return val.f['text']
    if isinstance(val, S) and k == 'other':
        return T(ip.ctx.fresh('str_other', Str))
    raise OutOfReach(f'str() of {val!r}')


def mk_range(ip, args):
    vals = [norm(ip, a) for a in args]
    for v in vals:
        if numkind(ip, v) != 'int':
            raise_('TypeError', "'float' object cannot be interpreted as an integer")
    if len(vals) == 1:
        return Obj('range', start=C(0), stop=vals[0], step=C(1))
    if len(vals) == 2:
        return Obj('range', start=vals[0], stop=vals[1], step=C(1))
    return Obj('range', start=vals[0], stop=vals[1], step=vals[2])


def call_builtin(ip, name, args, kwargs, frame):
    ctx = ip.ctx
    if name == 'isinstance':
        return _bool_val(type_pred(ip, args[0], args[1]))
    if name == 'callable':
        return _bool_val(p_callable(ip, args[0]))
    if name == 'len':
        return py_len(ip, args[0])
    if name == 'int':
        if not args:
            return C(0)
        return py_int(ip, args)
    if name == 'float':
        return py_float(ip, args)
    if name == 'str':
        return py_str(ip, args[0]) if args else C('')
    if name == 'bool':
        return _bool_val(ctx.truthy(args[0])) if args else C(False)
    if name == 'range':
        return mk_range(ip, args)
    if name == 'enumerate':
        return Obj('enumerate', inner=args[0])
    if name == 'reversed':
        return Obj('reversed', inner=args[0])
    if name == 'iter':
        return Obj('iter', inner=args[0])
    if name == 'next':
        return py_next(ip, args, frame)
    if name == 'list':
        return py_list(ip, args, frame)
    if name == 'tuple':
        return py_list(ip, args, frame)
    if name == 'dict':
        return py_dict(ip, args, kwargs, frame)
    if name == 'set':
        if not args:
            # an initially empty set of strings lives in the heap as a dict (member -> true): it may be loop-carried
            return S(ctx.alloc_dict([]))
        return Obj('set', items=concrete_seq(ip, args[0]))
    if name == 'abs':
        val = norm(ip, args[0])
        k = numkind(ip, val)
        if k == 'int':
            x = int_term(ip, val)
            return norm(ip, I(z3.If(x >= 0, x, -x)))
        if k == 'float':
            x = real_term(ip, val)
            return R(z3.If(x >= 0, x, -x))
        raise_('TypeError', 'bad operand type for abs()')
    if name in ('min', 'max'):
        return py_minmax(ip, name, args, kwargs)
    if name == 'sorted':
        return py_sorted(ip, args, kwargs)
    if name == 'ord':
        val = norm(ip, args[0])
        if isinstance(val, C):
            try:
                return C(ord(val.py))
            except TypeError as e:
                raise_('TypeError', str(e))
        s = str_term(ip, val)
        if ctx.branch(z3.Length(s) == 1):
            used('ord(c): STR_ORD uninterpreted, 0 <= ord < 0x110000')
            o = STR_ORD(s)
            ctx.assume(z3.And(o >= 0, o < 0x110000))
            return I(o)
        raise_('TypeError', 'ord() expected a character')
    if name == 'chr':
        val = norm(ip, args[0])
        if numkind(ip, val) != 'int':
            raise_('TypeError', "'float' object cannot be interpreted as an integer")
        x = int_term(ip, val)
        if ctx.branch(z3.And(x >= 0, x < 0x110000)):
            used('chr(i): STR_CHR uninterpreted, length 1')
            c = STR_CHR(x)
            ctx.assume(z3.Length(c) == 1)
            return T(c)
        if ctx.branch(z3.And(x >= -(2 ** 31), x < 2 ** 31)):
            raise_('ValueError', 'chr() arg not in range(0x110000)')
        raise_('OverflowError', 'Python int too large to convert to C int')
    if name == 'sum':
        hook = ctx.cfg.hooks.get('sum')
        if hook is not None:
            return hook(ip, args)
        raise OutOfReach('sum()')
    if name == 'type':
        return Obj('typeof', value=args[0])
    if name == 'super':
        return Obj('super')
    if name == 'print':
        return C(None)
    if name == 'repr':
        return T(ctx.fresh('repr', Str))
    raise OutOfReach(f'builtin {name}')


def concrete_seq(ip, val):
    seq = iteration(ip, val)
    if seq[0] != 'concrete':
        raise OutOfReach('a statically known sequence is required')
    return seq[1]


def py_next(ip, args, frame):
    """next(iter(d.keys())) / next(iter(d)) and next((genexp), default) idioms."""
    ctx = ip.ctx
    src = args[0]
    if isinstance(src, Obj) and src.kind == 'iter':
        inner = src.f['inner']
        if isinstance(inner, Obj) and inner.kind == 'dictkeys':
            inner = inner.f['dict']
        inner = norm(ip, inner)
        if isinstance(inner, C) and isinstance(inner.py, (dict, list, tuple)):
            items = list(inner.py.keys()) if isinstance(inner.py, dict) else list(inner.py)
            if not items:
                if len(args) > 1:
                    return args[1]
                raise_('StopIteration', '')
            return ctx.wrap(items[0])
        if isinstance(inner, S):
            k = resolve_kind(ip, inner, ('dict',))
            if k != 'dict':
                raise OutOfReach('next(iter(x)) on a non-dict')
            ref = z3.simplify(V.dref(inner.t))
            h = ctx.heap
            if ctx.branch(h.dnk(ref) >= 1):
                key = h.dkey(ref, z3.IntVal(0))
                ctx.assume(h.dhas(ref, key))
                hook = ctx.cfg.hooks.get('first_key')
                if hook is not None:
                    hook(ip, ref, key)
                return norm(ip, T(z3.simplify(key)))
            if len(args) > 1:
                return args[1]
            raise_('StopIteration', '')
        raise OutOfReach(f'next(iter({inner!r}))')
    if isinstance(src, Obj) and src.kind == 'genexp':
        from .models_loops import first_match
        return first_match(ip, src, args[1] if len(args) > 1 else None)
    raise OutOfReach('next() of an unsupported iterator')


def single_key_fact(ip, ref, key):
    hook = ip.ctx.cfg.hooks.get('single_key')
    if hook is not None:
        hook(ip, ref, key)


def py_list(ip, args, frame):
    ctx = ip.ctx
    if not args:
        return S(ctx.alloc_list([]))
    src = norm(ip, args[0])
    if isinstance(src, Obj) and src.kind == 'genexp':
        from .models_loops import genexp_list
        return genexp_list(ip, src)
    if isinstance(src, Obj) and src.kind == 'enumerate':
        inner = iteration(ip, src)
        if inner[0] == 'concrete':
            return Obj('tuple', items=inner[1])
        return Obj('enumlist', inner=src.f['inner'])
    if isinstance(src, Obj) and src.kind in ('dictkeys', 'dictvalues'):
        d = src.f['dict']
        if isinstance(d, S):
            ref = z3.simplify(V.dref(d.t))
            h = ctx.heap
            n = h.dnk(ref)
            j = z3.Int('j!keys')
            keys = z3.Select(h.KEY, ref)
            if src.kind == 'dictkeys':
                els = z3.Lambda([j], VStr(z3.Select(keys, j)))
            else:
                els = z3.Lambda([j], z3.Select(z3.Select(h.VAL, ref), z3.Select(keys, j)))
            nref, ctx.heap = ctx.heap.new_list(n, els)
            return S(VList(nref))
    if isinstance(src, S) and resolve_kind(ip, src, ('list', 'dict', 'str')) == 'list':
        ref = z3.simplify(V.lref(src.t))
        h = ctx.heap
        nref, ctx.heap = h.new_list(h.llen(ref), h.lels(ref))
        return S(VList(nref))
    seq = iteration(ip, src)
    if seq[0] == 'concrete':
        return S(ctx.alloc_list(seq[1]))
    if isinstance(src, S) and kind_of(ip, src) == 'list':
        ref = z3.simplify(V.lref(src.t))
        h = ctx.heap
        nref, ctx.heap = h.new_list(h.llen(ref), h.lels(ref))
        return S(VList(nref))
    raise OutOfReach('list() of a symbolic iterable')


def list_concat(ip, a, b):
    ctx = ip.ctx
    h = ctx.heap
    ra, rb = z3.simplify(V.lref(a.t)), z3.simplify(V.lref(b.t))
    na, nb = h.llen(ra), h.llen(rb)
    j = z3.Int('j!cat')
    els = z3.Lambda([j], z3.If(j < na, z3.Select(h.lels(ra), j), z3.Select(h.lels(rb), j - na)))
    nref, ctx.heap = h.new_list(z3.simplify(na + nb), els)
    return S(VList(nref))


def dict_copy(ip, d):
    ctx = ip.ctx
    h = ctx.heap
    ref = z3.simplify(V.dref(d.t))
    nref, h2 = h.new()
    ctx.heap = h2.copy(HAS=z3.Store(h2.HAS, nref, z3.Select(h.HAS, ref)),
                       VAL=z3.Store(h2.VAL, nref, z3.Select(h.VAL, ref)),
                       NK=z3.Store(h2.NK, nref, z3.Select(h.NK, ref)),
                       KEY=z3.Store(h2.KEY, nref, z3.Select(h.KEY, ref)))
    return S(VDict(nref))


def py_dict(ip, args, kwargs, frame):
    ctx = ip.ctx
    if not args:
        return S(ctx.alloc_dict([]))
    src = norm(ip, args[0])
    if isinstance(src, S):
        k = resolve_kind(ip, src, ('dict',))
        if k == 'dict':
            return dict_copy(ip, src)
        raise_('TypeError', 'cannot convert to dict')
    if isinstance(src, C) and isinstance(src.py, dict):
        return S(ctx.alloc_dict([(k, ctx.wrap(v)) for k, v in src.py.items()]))
    if isinstance(src, Obj) and src.kind == 'genexp':
        from .models_loops import genexp_items
        items = genexp_items(ip, src)
        out = {}
        for it in items:
            kv = unpack(ip, it, 2)
            kk = norm(ip, kv[0])
            if not isinstance(kk, C):
                raise OutOfReach('dict(genexp) with symbolic keys')
            out[kk.py] = kv[1]
        return C(out)
    raise OutOfReach(f'dict() of {src!r}')


def dict_merge(ip, parts):
    """{**a, **b}"""
    ctx = ip.ctx
    refs = []
    for p in parts:
        p = norm(ip, p)
        if not isinstance(p, S) or resolve_kind(ip, p, ('dict',)) != 'dict':
            raise_('TypeError', 'argument after ** must be a mapping')
        refs.append(z3.simplify(V.dref(p.t)))
    h = ctx.heap
    nref, h2 = h.new()
    has = z3.Select(h.HAS, refs[0])
    val = z3.Select(h.VAL, refs[0])
    k = z3.String('k!merge')
    for r in refs[1:]:
        hb, vb = z3.Select(h.HAS, r), z3.Select(h.VAL, r)
        has = z3.Lambda([k], z3.Or(z3.Select(has, k), z3.Select(hb, k)))
        val = z3.Lambda([k], z3.If(z3.Select(hb, k), z3.Select(vb, k), z3.Select(val, k)))
    nk = ctx.fresh('nk_merge', Int)
    keys = ctx.fresh('keys_merge', ArrIntS)
    ctx.assume(nk >= 0)
    ctx.heap = h2.copy(HAS=z3.Store(h2.HAS, nref, has), VAL=z3.Store(h2.VAL, nref, val),
                       NK=z3.Store(h2.NK, nref, nk), KEY=z3.Store(h2.KEY, nref, keys))
    return S(VDict(nref))


def py_minmax(ip, name, args, kwargs):
    ctx = ip.ctx
    if len(args) >= 2:
        vals = [norm(ip, a) for a in args]
        cur = vals[0]
        for v in vals[1:]:
            if isinstance(cur, C) and isinstance(v, C):
                try:
                    cur = C(min(cur.py, v.py) if name == 'min' else max(cur.py, v.py))
                except TypeError as e:
                    raise_('TypeError', str(e))
                continue
            lt = compare(ip, 'Lt' if name == 'min' else 'Gt', v, cur)
            if ctx.test(lt):
                cur = v
        return cur
    hook = ctx.cfg.hooks.get('minmax_seq')
    if hook is not None:
        return hook(ip, name, args[0])
    raise OutOfReach(f'{name}() of a sequence')


SORTED_KEYS = ufun('SORTED_KEYS', HeapSort, Int, z3.ArraySort(Int, Str))


def py_sorted(ip, args, kwargs):
    """sorted(d.items()) / sorted(d.keys()): a sorted permutation of the dict's keys (strict string order)."""
    ctx = ip.ctx
    src = args[0]
    if kwargs:
        raise OutOfReach('sorted() with key=')
    if isinstance(src, Obj) and src.kind in ('dictitems', 'dictkeys'):
        d = norm(ip, src.f['dict'])
        if isinstance(d, C):
            if src.kind == 'dictkeys':
                return C(sorted(d.py.keys()))
            return Obj('tuple', items=[Obj('tuple', items=[ctx.wrap(a), ctx.wrap(b)]) for a, b in sorted(d.py.items())])
        used('sorted(dict.items()/keys()): keys in strictly increasing string order, a permutation of the key set')
        ref = z3.simplify(V.dref(d.t))
        h = ctx.heap
        n = h.dnk(ref)
        keys = SORTED_KEYS(h.term(), ref)
        ctx.ghost['last_sorted'] = (keys, ref, n, h)
        hook = ctx.cfg.hooks.get('sorted_keys')
        if hook is not None:
            hook(ip, ref, keys, n)
        if src.kind == 'dictkeys':
            j = z3.Int('j!sk')
            nref, ctx.heap = ctx.heap.new_list(n, z3.Lambda([j], VStr(z3.Select(keys, j))))
            return S(VList(nref))
        j = z3.Int('j!sv')
        vals = z3.Lambda([j], z3.Select(z3.Select(h.VAL, ref), z3.Select(keys, j)))
        return Obj('pairs', keys=keys, vals=vals, n=n, dict=d)
    seq = iteration(ip, src)
    if seq[0] == 'concrete' and all(isinstance(norm(ip, x), C) for x in seq[1]):
        return C(sorted(norm(ip, x).py for x in seq[1]))
    raise OutOfReach('sorted() of a symbolic sequence')


# ---------------------------------------------------------------------------------------------
# attributes
# ---------------------------------------------------------------------------------------------

DATE_FIELD = {name: ufun('DATE_' + name.upper(), Int, Int) for name in
              ('year', 'month', 'day', 'hour', 'minute', 'second', 'microsecond')}
DATE_RANGE = {'year': (1, 9999), 'month': (1, 12), 'day': (1, 31), 'hour': (0, 23), 'minute': (0, 59),
              'second': (0, 59), 'microsecond': (0, 999999)}


DIM = ufun('DIM', Int, Int, Int)                       # days in month


def date_field(ip, t, name):
    f = DATE_FIELD[name](V.us(t))
    lo, hi = DATE_RANGE[name]
    ip.ctx.assume(z3.And(f >= lo, f <= hi))
    if name == 'day':
        ip.ctx.assume(f <= DIM(DATE_FIELD['year'](V.us(t)), DATE_FIELD['month'](V.us(t))))
    used('datetime component accessors: uninterpreted functions of the instant, within their calendar ranges')
    return norm(ip, I(f))


def getattr(ip, obj, attr):
    ctx = ip.ctx
    obj = norm(ip, obj)
    if isinstance(obj, C) and obj.py is None:
        raise_('AttributeError', f"'NoneType' object has no attribute '{attr}'")
    if isinstance(obj, Obj):
        k = obj.kind
        if k == 'module':
            mod = obj.f['name']
            if mod == 'math' and attr == 'pi':
                return C(_math.pi)
            if mod == 'os' and attr == 'sep':
                return C('/')
            return Obj('modattr', name=f'{mod}.{attr}')
        if k == 'modattr':
            return Obj('modattr', name=f'{obj.f["name"]}.{attr}')
        if k == 'exc':
            if attr in obj.f['fields']:
                return obj.f['fields'][attr]
            if attr == 'args':
                return Obj('tuple', items=obj.f['args'])
            # attribute of an exception of unknown class: a fresh value (memoised)
            if obj.f['cls'] is None or isinstance(obj.f['cls'], tuple):
                v = S(ctx.fresh(f'exc_{attr}', V))
                ctx.assume(wf_value(ctx.heap, v.t))
                obj.f['fields'][attr] = v
                return v
            raise_('AttributeError', attr)
        if k in ('match', 'regex', 'super', 'set', 'timedelta', 'pathobj', 'tuple', 'pairs'):
            if k == 'match' and attr == 'string':
                return obj.f['subject']
            return Obj('bound', self=obj, name=attr)
        raise OutOfReach(f'attribute {attr} of {k}')
    if isinstance(obj, S):
        kd = kind_of(ip, obj)
        if kd == 'date' or (kd is None and (attr in DATE_FIELD or attr == 'tzinfo') and ctx.must(is_date(obj.t))):
            if attr in DATE_FIELD:
                return date_field(ip, obj.t, attr)
            if attr == 'tzinfo':
                return Obj('tzinfo') if ctx.branch(V.kind(obj.t) == 2) else C(None)
    return Obj('bound', self=obj, name=attr)


# ---------------------------------------------------------------------------------------------
# methods
# ---------------------------------------------------------------------------------------------

def call_method(ip, self_, name, args, kwargs, frame):
    ctx = ip.ctx
    self_ = norm(ip, self_)
    if isinstance(self_, Obj):
        k = self_.kind
        if k == 'super':
            return C(None)          # super().__init__(message)
        if k == 'set':
            if name == 'add':
                self_.f['items'].append(args[0])
                return C(None)
        if k == 'regex':
            from .models_regex import regex_method
            return regex_method(ip, self_, name, args, kwargs)
        if k == 'match':
            from .models_regex import match_method
            return match_method(ip, self_, name, args, kwargs)
        if k == 'timedelta' and name == 'total_seconds':
            return R(z3.ToReal(self_.f['us']) / 1000000)
        raise OutOfReach(f'method {name} of {k}')
    if isinstance(self_, C):
        py = self_.py
        cargs = [norm(ip, a) for a in args]
        if isinstance(py, dict):
            if name == 'get':
                key = cargs[0]
                default = args[1] if len(args) > 1 else C(None)
                if isinstance(key, C):
                    return ctx.wrap(py[key.py]) if key.py in py else default
                kt = key_term(ip, key)
                if len(py) > 8:
                    # a large constant table looked up with a symbolic key: the result is an uninterpreted function
                    # of the key (the table itself is checked by an exhaustive table lemma where a property needs it)
                    name = TABLE_NAMES.get(id(py))
                    if name is None:
                        raise OutOfReach('symbolic lookup in an unnamed constant table')
                    used(f'{name}.get(symbolic key): uninterpreted lookup function')
                    hit = ufun(f'TABLE_HAS_{name}', Str, Bool)(kt)
                    if ctx.branch(hit):
                        v = ufun(f'TABLE_{name}', Str, V)(kt)
                        if all(isinstance(x, Obj) and x.kind == 'func' for x in py.values()):
                            ctx.assume(is_func(v))
                        return S(v)
                    return default
                for k2, v in py.items():
                    if isinstance(k2, str) and ctx.branch(kt == z3.StringVal(k2)):
                        return ctx.wrap(v)
                return default
            if name == 'keys':
                return Obj('dictkeys', dict=self_)
            if name == 'items':
                return Obj('dictitems', dict=self_)
            if name == 'values':
                return Obj('dictvalues', dict=self_)
        if isinstance(py, str):
            if all(isinstance(a, C) for a in cargs):
                try:
                    r = getattr_py(py, name)(*[a.py for a in cargs])
                except (ValueError, TypeError, IndexError) as e:
                    raise_(type(e).__name__, str(e))
                return ctx.wrap(list(r) if isinstance(r, list) else r)
            return str_method(ip, z3.StringVal(py), name, cargs)
        raise OutOfReach(f'method {name} of concrete {type(py).__name__}')
    if isinstance(self_, T):
        return str_method(ip, self_.t, name, [norm(ip, a) for a in args])
    if isinstance(self_, S):
        kd = resolve_kind(ip, self_, ('list', 'dict', 'str', 'date', 'regex'))
        if kd == 'list':
            return list_method(ip, self_, name, args, kwargs)
        if kd == 'dict':
            return dict_method(ip, self_, name, args, kwargs)
        if kd == 'str':
            return str_method(ip, V.s(self_.t), name, [norm(ip, a) for a in args])
        if kd == 'date':
            from .models_date import date_method
            return date_method(ip, self_, name, args, kwargs)
        if kd == 'regex':
            from .models_regex import regex_value_method
            return regex_value_method(ip, self_, name, args, kwargs)
        raise_('AttributeError', name)
    raise OutOfReach(f'method {name} on {self_!r}')


def getattr_py(obj, name):
    import builtins
    return builtins.getattr(obj, name)


def list_method(ip, lst, name, args, kwargs):
    ctx = ip.ctx
    ref = z3.simplify(V.lref(lst.t))
    h = ctx.heap
    n = h.llen(ref)
    if name == 'append':
        vt = ctx.stored(args[0])
        h = ctx.heap
        ctx.heap = h.lset(ref, h.llen(ref), vt).lsetlen(ref, z3.simplify(h.llen(ref) + 1))
        return C(None)
    if name == 'extend':
        src = norm(ip, args[0])
        if isinstance(src, S) and resolve_kind(ip, src, ('list',)) == 'list':
            r2 = z3.simplify(V.lref(src.t))
            m = h.llen(r2)
            j = z3.Int('j!ext')
            els = z3.Lambda([j], z3.If(j < n, z3.Select(h.lels(ref), j), z3.Select(h.lels(r2), j - n)))
            ctx.heap = h.lsetall(ref, z3.simplify(n + m), els)
            return C(None)
        seq = iteration(ip, src)
        if seq[0] == 'concrete':
            for item in seq[1]:
                list_method(ip, lst, 'append', [item], {})
            return C(None)
        raise OutOfReach('extend() with a symbolic non-list iterable')
    if name == 'pop':
        if args:
            raise OutOfReach('pop(index)')
        if ctx.branch(n == 0):
            raise_('IndexError', 'pop from empty list')
        v = ctx.loaded(h.lget(ref, n - 1))
        ctx.heap = h.lsetlen(ref, z3.simplify(n - 1))
        return v
    if name == 'clear':
        ctx.heap = h.lsetlen(ref, z3.IntVal(0))
        return C(None)
    if name == 'sort':
        hook = ctx.cfg.hooks.get('list_sort')
        if hook is not None:
            return hook(ip, lst, kwargs)
        key = kwargs.get('key')
        if isinstance(key, Obj) and key.kind == 'cmpkey' and isinstance(key.f['fn'], Obj) and key.f['fn'].kind == 'func':
            # assumed contract of list.sort(key=cmp_to_key(f)) for a repo comparison function f: the list becomes a
            # permutation of itself (SORT_PERM), ordered with respect to f provided f is a total preorder
            used('list.sort(key=cmp_to_key(f)): in-place permutation SORT_PERM(heap, list, f), ordered w.r.t. f when f is a total preorder')
            fq = key.f['fn'].f['qual']
            from .models_loops import footprint_term
            perm = ufun('SORT_PERM_' + fq, HeapSort, Int, z3.ArraySort(Int, Int))(footprint_term(ctx, h), ref)
            j = z3.Int('j!sort')
            els = z3.Lambda([j], z3.Select(h.lels(ref), z3.Select(perm, j)))
            ctx.heap = h.lsetall(ref, n, els)
            return C(None)
        raise OutOfReach('list.sort without a model')
    if name == 'copy':
        nref, ctx.heap = h.new_list(n, h.lels(ref))
        return S(VList(nref))
    raise OutOfReach(f'list method {name}')


def dict_method(ip, d, name, args, kwargs):
    ctx = ip.ctx
    ref = z3.simplify(V.dref(d.t))
    h = ctx.heap
    if name == 'get':
        key = norm(ip, args[0])
        default = args[1] if len(args) > 1 else C(None)
        kk = kind_of(ip, key)
        if kk is not None and kk != 'str':
            if kk in ('list', 'dict'):
                raise_('TypeError', 'unhashable type')
            return default
        kt = key_term(ip, key)
        has = z3.simplify(h.dhas(ref, kt))
        if not (is_t(has) or is_f(has)) and isinstance(norm(ip, default), (C, S, B, I, R, T)):
            try:
                dt = ctx.to_term(default)
            except OutOfReach:
                dt = None
            if dt is not None and not (isinstance(default, C) and isinstance(default.py, (list, tuple, dict))):
                # fork-free: d.get(k, default) as a conditional value
                v = h.dget(ref, kt)
                ctx.assume(z3.Implies(has, wf_value(h, v)))
                return norm(ip, S(z3.If(has, v, dt)))
        if ctx.branch(has):
            return norm(ip, ctx.loaded(h.dget(ref, kt)))
        return default
    if name == 'keys':
        return Obj('dictkeys', dict=d)
    if name == 'items':
        return Obj('dictitems', dict=d)
    if name == 'values':
        return Obj('dictvalues', dict=d)
    if name == 'copy':
        return dict_copy(ip, d)
    if name == 'update':
        src = norm(ip, args[0])
        if isinstance(src, S) and resolve_kind(ip, src, ('dict',)) == 'dict':
            r2 = z3.simplify(V.dref(src.t))
            k = z3.String('k!upd')
            ha, va = z3.Select(h.HAS, ref), z3.Select(h.VAL, ref)
            hb, vb = z3.Select(h.HAS, r2), z3.Select(h.VAL, r2)
            has = z3.Lambda([k], z3.Or(z3.Select(ha, k), z3.Select(hb, k)))
            val = z3.Lambda([k], z3.If(z3.Select(hb, k), z3.Select(vb, k), z3.Select(va, k)))
            nk = ctx.fresh('nk_upd', Int)
            keys = ctx.fresh('keys_upd', ArrIntS)
            ctx.assume(nk >= h.dnk(ref))
            hook = ctx.cfg.hooks.get('dict_update_order')
            if hook is not None:
                hook(ip, h, ref, r2, nk, keys)
            ctx.heap = h.copy(HAS=z3.Store(h.HAS, ref, has), VAL=z3.Store(h.VAL, ref, val),
                              NK=z3.Store(h.NK, ref, nk), KEY=z3.Store(h.KEY, ref, keys))
            return C(None)
        if isinstance(src, Obj) and src.kind == 'genexp':
            big = update_missing_from_table(ip, d, ref, src)
            if big:
                return C(None)
            from .models_loops import genexp_items
            for it in genexp_items(ip, src):
                kv = unpack(ip, it, 2)
                ctx.heap = ctx.heap.dset(ref, key_term(ip, norm(ip, kv[0])), ctx.stored(kv[1]))
            return C(None)
        raise OutOfReach('dict.update() argument')
    if name == 'add':
        # heap-allocated set (see the `set` builtin)
        ctx.heap = ctx.heap.dset(ref, key_term(ip, norm(ip, args[0])), VBool(z3.BoolVal(True)))
        return C(None)
    if name == 'pop':
        raise OutOfReach('dict.pop')
    raise OutOfReach(f'dict method {name}')


def update_missing_from_table(ip, d, ref, gen):
    """d.update(item for item in TABLE.items() if item[0] not in d) for a large constant TABLE: every table key that
    is missing from d is added with the table's value; existing keys are untouched (key order of the additions is
    left unspecified)."""
    ctx = ip.ctx
    node, frame = gen.f['node'], gen.f['frame']
    if len(node.generators) != 1:
        return False
    g = node.generators[0]
    if not (isinstance(g.target, ast.Name) and isinstance(node.elt, ast.Name) and node.elt.id == g.target.id):
        return False
    if not (isinstance(g.iter, ast.Call) and isinstance(g.iter.func, ast.Attribute) and g.iter.func.attr == 'items'):
        return False
    table = ip.eval(frame, g.iter.func.value)
    if not (isinstance(table, C) and isinstance(table.py, dict) and len(table.py) > 8):
        return False
    if len(g.ifs) != 1:
        return False
    cond = g.ifs[0]
    ok = (isinstance(cond, ast.Compare) and len(cond.ops) == 1 and isinstance(cond.ops[0], ast.NotIn) and
          isinstance(cond.left, ast.Subscript) and isinstance(cond.left.value, ast.Name) and
          cond.left.value.id == g.target.id and isinstance(cond.left.slice, ast.Constant) and cond.left.slice.value == 0)
    if not ok:
        return False
    other = norm(ip, ip.eval(frame, cond.comparators[0]))
    if not (isinstance(other, S) and z3.simplify(V.dref(other.t)).eq(ref)):
        return False
    name = TABLE_NAMES.get(id(table.py))
    if name is None:
        return False
    used(f'{name}: dict.update(items missing from the target) modelled with the table as an uninterpreted map')
    has_t = ufun(f'TABLE_HAS_{name}', Str, Bool)
    val_t = ufun(f'TABLE_{name}', Str, V)
    h = ctx.heap
    k = z3.String('k!tbl')
    ha, va = z3.Select(h.HAS, ref), z3.Select(h.VAL, ref)
    has = z3.Lambda([k], z3.Or(z3.Select(ha, k), has_t(k)))
    val = z3.Lambda([k], z3.If(z3.Select(ha, k), z3.Select(va, k), val_t(k)))
    nk = ctx.fresh('nk_upd', Int)
    keys = ctx.fresh('keys_upd', ArrIntS)
    ctx.assume(nk >= h.dnk(ref))
    ctx.heap = h.copy(HAS=z3.Store(h.HAS, ref, has), VAL=z3.Store(h.VAL, ref, val), NK=z3.Store(h.NK, ref, nk),
                      KEY=z3.Store(h.KEY, ref, keys))
    return True


def str_method(ip, s, name, args):
    ctx = ip.ctx

    def sarg(i):
        a = args[i]
        if kind_of(ip, a) != 'str':
            if isinstance(a, S) and ctx.must(is_str(a.t)):
                return V.s(a.t)
            raise_('TypeError', f'{name}: must be str')
        return str_term(ip, a)

    if name == 'startswith':
        return _bool_val(z3.PrefixOf(sarg(0), s))
    if name == 'endswith':
        return _bool_val(z3.SuffixOf(sarg(0), s))
    if name in ('lower', 'upper', 'strip', 'rstrip'):
        used(f'str.{name}: uninterpreted')
        f = {'lower': STR_LOWER, 'upper': STR_UPPER, 'strip': STR_STRIP, 'rstrip': STR_RSTRIP}[name]
        r = f(s)
        if name in ('strip', 'rstrip'):
            ctx.assume(z3.Length(r) <= z3.Length(s))
        return norm(ip, T(r))
    if name == 'replace':
        used('str.replace: uninterpreted')
        return T(STR_REPLACE(s, sarg(0), sarg(1)))
    if name == 'find':
        used('str.find(sub, start): uninterpreted, result in [-1, len)')
        start = int_term(ip, args[1]) if len(args) > 1 else z3.IntVal(0)
        if len(args) > 1 and numkind(ip, args[1]) != 'int':
            raise_('TypeError', 'slice indices must be integers')
        r = STR_FIND(s, sarg(0), start)
        ctx.assume(z3.And(r >= -1, r <= z3.Length(s)))
        return I(r)
    if name == 'rfind':
        used('str.rfind(sub, start, end): uninterpreted, result in [-1, len)')
        for a in args[1:]:
            if numkind(ip, a) != 'int':
                raise_('TypeError', 'slice indices must be integers')
        start = int_term(ip, args[1]) if len(args) > 1 else z3.IntVal(0)
        end = int_term(ip, args[2]) if len(args) > 2 else z3.Length(s)
        r = STR_RFIND(s, sarg(0), start, end)
        ctx.assume(z3.And(r >= -1, r <= z3.Length(s)))
        return I(r)
    if name in ('split', 'splitlines'):
        used(f'str.{name}: a fresh list of strings (uninterpreted contents)')
        if name == 'split' and args:
            sep = sarg(0)
            if ctx.branch(z3.Length(sep) == 0):
                raise_('ValueError', 'empty separator')
        if name == 'split' and args:
            n, parts = STR_SPLIT_N(s, sep), STR_SPLIT_PARTS(s, sep)
        elif name == 'split':
            n, parts = STR_SPLIT_N(s, z3.StringVal('')), STR_SPLIT_PARTS(s, z3.StringVal(''))
        else:
            n, parts = STR_SPLITLINES_N(s), STR_SPLITLINES_PARTS(s)
        ctx.assume(n >= (1 if (name == 'split' and args) else 0))
        j = z3.Int('j!split')
        nref, ctx.heap = ctx.heap.new_list(n, z3.Lambda([j], VStr(z3.Select(parts, j))))
        return S(VList(nref))
    if name == 'join':
        used('str.join: uninterpreted; TypeError if an item is not a string')
        src = args[0]
        if isinstance(src, Obj) and src.kind == 'genexp':
            from .models_loops import genexp_join
            return genexp_join(ip, s, src)
        hook = ctx.cfg.hooks.get('str_join')
        if hook is not None:
            return hook(ip, s, src)
        return T(ctx.fresh('joined', Str))
    if name == 'encode':
        return Obj('bytes', of=s)
    raise OutOfReach(f'str method {name}')


# ---------------------------------------------------------------------------------------------
# calls of values, externals
# ---------------------------------------------------------------------------------------------

def call_value(ip, callee, args, kwargs, frame, node):
    """Call of a symbolic value. A concrete function id resolves to the repo function / closure; otherwise the
    configured callable model (host function contract) applies."""
    ctx = ip.ctx
    t = z3.simplify(callee.t)
    if is_t(z3.simplify(is_func(t))):
        fid = z3.simplify(V.fid(t))
        if z3.is_int_value(fid):
            n = fid.as_long()
            if n in ctx.closures:
                return ip.call(ctx.closures[n], args, kwargs, frame, node)
            q = ctx.engine.func_by_id(n)
            if q is not None:
                return ip.call(Obj('func', qual=q), args, kwargs, frame, node)
    model = ctx.cfg.callable_model
    if model is None:
        raise OutOfReach('call of an unknown callable value (no callable model configured)')
    return model(ip, callee, args, kwargs, frame, node)


def call_ext(ip, name, args, kwargs, frame):
    """Calls of names imported with `from x import y` from outside the repo."""
    ctx = ip.ctx
    hook = ctx.cfg.hooks.get('ext')
    if hook is not None:
        r = hook(ip, name, args, kwargs)
        if r is not None:
            return r
    if name in ('schema_markdown.parse_schema_markdown',):
        return Obj('opaque', what=name)
    if name == 'pathlib.Path':
        used('pathlib.Path(p) / str(Path): uninterpreted normalisation PATH_NORM')
        return Obj('pathobj', text=T(ufun('PATH_NORM', Str, Str)(str_term(ip, norm(ip, args[0])))))
    raise OutOfReach(f'external callee {name}')


def call_modattr(ip, name, args, kwargs, frame):
    ctx = ip.ctx
    hook = ctx.cfg.hooks.get('ext')
    if hook is not None:
        r = hook(ip, name, args, kwargs)
        if r is not None:
            return r
    if name == 're.compile':
        pat = norm(ip, args[0])
        flags = args[1] if len(args) > 1 else None
        if isinstance(pat, C):
            return Obj('regex', pattern=pat.py, flags=flags, name=None)
        from .models_regex import compile_value
        return compile_value(ip, pat, flags)
    if name.startswith('re.') and name[3:] in ('I', 'M', 'S', 'MULTILINE'):
        return Obj('flag', name=name)
    if name == 're.match':
        rx, subj = args[0], args[1]
        if not (isinstance(rx, Obj) and rx.kind == 'regex'):
            raise OutOfReach('re.match with a non-constant pattern')
        from .models_regex import regex_method
        return regex_method(ip, rx, 'match', [subj], {})
    if name == 're.escape':
        used('re.escape: uninterpreted RE_ESCAPE')
        return T(ufun('RE_ESCAPE', Str, Str)(str_term(ip, norm(ip, args[0]))))
    if name.startswith('math.'):
        from .models_math import math_call
        return math_call(ip, name[5:], args)
    if name.startswith('datetime.') or name.startswith('calendar.'):
        from .models_date import date_call
        return date_call(ip, name, args, kwargs)
    if name == 'functools.partial':
        return Obj('partial', fn=args[0], args=list(args[1:]))
    if name == 'functools.cmp_to_key':
        return Obj('cmpkey', fn=args[0])
    if name == 'json.loads':
        used('json.loads: returns an arbitrary JSON value or raises ValueError (JSONDecodeError)')
        a0 = norm(ip, args[0])
        if kind_of(ip, a0) != 'str' and not (isinstance(a0, S) and ctx.must(is_str(a0.t))):
            if isinstance(a0, S) and ctx.feasible(is_str(a0.t)):
                raise OutOfReach('json.loads on a value of undetermined type')
            raise_('TypeError', 'the JSON object must be str')
        if ctx.choice('json_ok'):
            # the decoded value is built from new containers: the heap below the old allocation bound is unchanged and
            # a container result lies above it
            h0 = ctx.heap
            fresh = ctx.fresh_heap('json')
            rr = z3.Int('r!js')
            keep = rr < h0.alloc

            def _m(o, n):
                return z3.Lambda([rr], z3.If(keep, z3.Select(o, rr), z3.Select(n, rr)))
            ctx.assume(fresh.alloc >= h0.alloc)
            ctx.heap = Heap(_m(h0.LEN, fresh.LEN), _m(h0.ELS, fresh.ELS), _m(h0.HAS, fresh.HAS), _m(h0.VAL, fresh.VAL),
                            _m(h0.NK, fresh.NK), _m(h0.KEY, fresh.KEY), fresh.alloc)
            v = ctx.fresh_v('json')
            ctx.assume(wf_value(ctx.heap, v))
            ctx.assume(z3.Implies(is_list(v), V.lref(v) >= h0.alloc))
            ctx.assume(z3.Implies(is_dict(v), V.dref(v) >= h0.alloc))
            ctx.assume(z3.Not(z3.Or(is_date(v), is_func(v), is_regex(v), is_other(v))))
            return S(v)
        raise_('JSONDecodeError', 'invalid JSON')
    if name == 'urllib.parse.quote':
        used('urllib.parse.quote: uninterpreted URL_QUOTE(s, safe)')
        safe = kwargs.get('safe', C('/'))
        return T(ufun('URL_QUOTE', Str, Str, Str)(str_term(ip, norm(ip, args[0])), str_term(ip, norm(ip, safe))))
    if name == 'os.path.join':
        used('os.path.join: uninterpreted')
        return T(ufun('OS_PATH_JOIN', Str, Str, Str)(str_term(ip, norm(ip, args[0])), str_term(ip, norm(ip, args[1]))))
    if name == 'os.path.dirname':
        used('os.path.dirname: uninterpreted')
        return T(ufun('OS_PATH_DIRNAME', Str, Str)(str_term(ip, norm(ip, args[0]))))
    if name == 'random.random':
        r = ctx.fresh('rand', Real)
        ctx.assume(z3.And(r >= 0, r < 1))
        return R(r)
    raise OutOfReach(f'stdlib callee {name}')


# ---------------------------------------------------------------------------------------------
# f-strings, comprehensions
# ---------------------------------------------------------------------------------------------

def fstring(ip, frame, node):
    """An f-string is an uninterpreted injective-per-site formatter of its interpolated values; fully concrete
    f-strings are computed."""
    ctx = ip.ctx
    parts = []
    all_conc = True
    for v in node.values:
        if isinstance(v, ast.Constant):
            parts.append(('lit', v.value))
        else:
            val = norm(ip, ip.eval(frame, v.value))
            spec = None
            if v.format_spec is not None:
                sv = ip.ex_JoinedStr(frame, v.format_spec)
                sv = norm(ip, sv)
                spec = sv.py if isinstance(sv, C) else '?'
            if not isinstance(val, C) or spec not in (None, ''):
                all_conc = False
            parts.append(('val', val, spec))
    if all_conc:
        return C(''.join(p[1] if p[0] == 'lit' else ('null' if False else str(p[1].py)) for p in parts))
    hook = ctx.cfg.hooks.get('fstring')
    if hook is not None:
        r = hook(ip, frame, node, parts)
        if r is not None:
            return r
    # concatenation of literals and per-value text
    out = None
    for p in parts:
        if p[0] == 'lit':
            piece = z3.StringVal(p[1])
        else:
            val, spec = p[1], p[2]
            kd = kind_of(ip, val)
            if spec in (None, '') and kd == 'str':
                piece = str_term(ip, val)
            elif spec in (None, '') and kd == 'int':
                piece = STR_OF_INT(int_term(ip, val))
            elif spec in (None, '') and isinstance(val, C):
                piece = z3.StringVal(str(val.py))
            else:
                site = f'{frame.qual}:{node.lineno}:{node.col_offset}'
                vt = ctx.to_term(val) if not isinstance(val, Obj) else VOther(z3.IntVal(-1))
                piece = ufun('FMT_' + site + ':' + str(spec), V, Str)(vt)
                if spec in (None, '') and not isinstance(val, Obj):
                    # an empty format spec renders a str as itself
                    piece = z3.If(is_str(vt), V.s(vt), piece)
        out = piece if out is None else z3.Concat(out, piece)
    return T(z3.simplify(out) if out is not None else z3.StringVal(''))


def comprehension(ip, frame, node, kind):
    """[f(x) for x in L] over a statically sized iterable, or via the models_loops idiom."""
    from .models_loops import listcomp
    return listcomp(ip, frame, node)


# ---------------------------------------------------------------------------------------------
# module-level constants
# ---------------------------------------------------------------------------------------------

def eval_module_const(ip, frame, name, node):
    """Evaluate a module-level initialiser. Only what the seven modules use."""
    if isinstance(node, ast.Call):
        fn = node.func
        fname = fn.id if isinstance(fn, ast.Name) else (ast.unparse(fn))
        if fname == 'value_args_model':
            # assumed contract: identity on a valid argument model (its own check runs natively in setup)
            used('value_args_model(model) returns the model unchanged (checked natively at import time by the repo itself)')
            return C(ast.literal_eval(node.args[0]))
        if fname == 're.compile':
            pattern = ast.literal_eval(node.args[0]) if not isinstance(node.args[0], ast.JoinedStr) else None
            if pattern is None:
                raise OutOfReach(f'regex {name} with a computed pattern')
            flags = ast.unparse(node.args[1]) if len(node.args) > 1 else None
            return Obj('regex', pattern=pattern, flags=flags, name=f'{frame.module}.{name}')
        if fname == 'parse_schema_markdown':
            return Obj('opaque', what=name, text=ast.literal_eval(node.args[0]))
        if fname == 'type':
            return Obj('regextype')
        if fname == '_JSONEncoder':
            return Obj('jsonencoder', indent=None)
        if fname == 'dict' and node.args and isinstance(node.args[0], ast.GeneratorExp):
            # EXPRESSION_FUNCTIONS = dict((a, SCRIPT_FUNCTIONS[b]) for a, b in MAP.items())
            val = ip.eval(frame, node)
            return val
    if isinstance(node, ast.Dict) or isinstance(node, ast.List) or isinstance(node, ast.Set) or isinstance(node, ast.Tuple):
        return C(const_container(ip, frame, node))
    if isinstance(node, ast.Constant):
        return C(node.value)
    if isinstance(node, ast.JoinedStr):
        return ip.eval(frame, node)
    if isinstance(node, ast.Name):
        return ip.lookup(frame, node.id)
    raise OutOfReach(f'module constant {frame.module}.{name}: unsupported initialiser')


def const_container(ip, frame, node):
    if isinstance(node, ast.Dict):
        return {const_container(ip, frame, k): const_container(ip, frame, v) for k, v in zip(node.keys, node.values)}
    if isinstance(node, (ast.List, ast.Tuple)):
        return [const_container(ip, frame, e) for e in node.elts]
    if isinstance(node, ast.Set):
        return frozenset(const_container(ip, frame, e) for e in node.elts)
    if isinstance(node, ast.Constant):
        return node.value
    if isinstance(node, ast.Name):
        v = ip.lookup(frame, node.id)
        return v.py if isinstance(v, C) else v
    if isinstance(node, ast.Call) and isinstance(node.func, ast.Name) and node.func.id == 'set' and not node.args:
        return frozenset()
    if isinstance(node, ast.UnaryOp) and isinstance(node.op, ast.USub):
        return -const_container(ip, frame, node.operand)
    raise OutOfReach(f'constant container element {type(node).__name__}')
