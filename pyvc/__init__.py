import sys

# the models mention integers beyond CPython's default int->str digit limit (e.g. 10 ** 4300, the limit itself)
if hasattr(sys, 'set_int_max_str_digits'):
    sys.set_int_max_str_digits(0)
