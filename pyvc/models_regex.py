"""pyvc.models_regex — compiled patterns are represented by their pattern string. Matching on concrete subjects
is computed with `re` itself; on symbolic subjects it is abstract (an arbitrary optional match whose groups are
arbitrary substrings), unless a regex hook supplies language/group facts (DESIGN.md 3.7)."""
import re as _re
try:
    import re._parser as sre_parse
except ImportError:  # pragma: no cover
    import sre_parse
import z3
from .core import (V, VStr, VNone, VList, VDict, is_str, is_none, Int, Str, Bool, ArrIntS, Val, C, S, B, I, R, T, Obj)
from .interp import OutOfReach
from .models_ops import norm, kind_of, str_term, raise_, int_term, resolve_kind
from .models_calls import ufun, used


def py_flags(flags):
    f = 0
    if flags:
        text = flags if isinstance(flags, str) else ''
        if 'MULTILINE' in text or 're.M' in text:
            f |= _re.M
        if 're.I' in text:
            f |= _re.I
        if 're.S' in text:
            f |= _re.S
    return f


def literal_alternatives(sub):
    """if the sub-pattern is a literal or an alternation of literals, the list of strings it can match; else None"""
    def lit(items):
        out = ''
        for op, av in items:
            if str(op) == 'LITERAL':
                out += chr(av)
            else:
                return None
        return out
    items = list(sub)
    if len(items) == 1 and str(items[0][0]) == 'BRANCH':
        alts = [lit(a) for a in items[0][1][1]]
        return None if any(a is None for a in alts) else alts
    if len(items) == 1 and str(items[0][0]) == 'IN':
        alts = [chr(av) for op, av in items[0][1] if str(op) == 'LITERAL']
        return alts if len(alts) == len(items[0][1]) else None
    one = lit(items)
    return None if one is None else [one]


GROUP_LITERALS = {}
GROUP_DIGITS = {}       # pattern -> {gid/name: n} for groups that are exactly \\d{n}
GROUP_NESTING = {}      # pattern -> {gid/name: [(ancestor gid/name, minimum number of characters of the ancestor outside it)]}


def group_info(pattern):
    """{group name or index: optional?} — a group is optional when it lies under a repeat with min 0 or in a branch."""
    parsed = sre_parse.parse(pattern)
    names = {v: k for k, v in parsed.state.groupdict.items()}
    info = {}
    lits = GROUP_LITERALS.setdefault(pattern, {})
    nest = GROUP_NESTING.setdefault(pattern, {})
    stack = []

    def walk(items, optional):
        for op, av in items:
            opn = str(op)
            if opn == 'SUBPATTERN':
                gid, _, _, sub = av
                if gid is not None:
                    anc = []
                    for agid, asub in stack:
                        extra = max(0, asub.getwidth()[0] - sub.getwidth()[0])
                        anc.append((agid, extra))
                        if agid in names:
                            anc.append((names[agid], extra))
                    nest[gid] = anc
                    if gid in names:
                        nest[names[gid]] = anc
                    stack.append((gid, sub))
                    walk(sub, optional)
                    stack.pop()
                    info[gid] = optional
                    items_ = list(sub)
                    if len(items_) == 1 and str(items_[0][0]) in ('MAX_REPEAT',) and items_[0][1][0] == items_[0][1][1]:
                        inner_ = list(items_[0][1][2])
                        if len(inner_) == 1 and str(inner_[0][0]) == 'IN' and [str(x[0]) + str(x[1]) for x in inner_[0][1]] == ['CATEGORYCATEGORY_DIGIT']:
                            GROUP_DIGITS.setdefault(pattern, {})[gid] = items_[0][1][0]
                            if gid in names:
                                GROUP_DIGITS[pattern][names[gid]] = items_[0][1][0]
                    alts = literal_alternatives(sub)
                    if alts is not None:
                        lits[gid] = alts
                    if gid in names:
                        info[names[gid]] = optional
                        if alts is not None:
                            lits[names[gid]] = alts
                    continue
                if False:
                    info[gid] = optional
                    items_ = list(sub)
                    if len(items_) == 1 and str(items_[0][0]) in ('MAX_REPEAT',) and items_[0][1][0] == items_[0][1][1]:
                        inner_ = list(items_[0][1][2])
                        if len(inner_) == 1 and str(inner_[0][0]) == 'IN' and [str(x[0]) + str(x[1]) for x in inner_[0][1]] == ['CATEGORYCATEGORY_DIGIT']:
                            GROUP_DIGITS.setdefault(pattern, {})[gid] = items_[0][1][0]
                            if gid in names:
                                GROUP_DIGITS[pattern][names[gid]] = items_[0][1][0]
                    alts = literal_alternatives(sub)
                    if alts is not None:
                        lits[gid] = alts
                    if gid in names:
                        info[names[gid]] = optional
                        if alts is not None:
                            lits[names[gid]] = alts
                walk(sub, optional)
            elif opn in ('MAX_REPEAT', 'MIN_REPEAT', 'POSSESSIVE_REPEAT'):
                lo, hi, sub = av
                walk(sub, optional or lo == 0)
            elif opn == 'BRANCH':
                for alt in av[1]:
                    walk(alt, True)
            elif opn in ('ASSERT', 'ASSERT_NOT'):
                walk(av[1], optional)
            elif opn == 'GROUPREF_EXISTS':
                walk(av[1], True)
                if av[2]:
                    walk(av[2], True)
    walk(parsed, False)
    return info, parsed.state.groups - 1, dict(parsed.state.groupdict)


def regex_method(ip, rx, name, args, kwargs):
    ctx = ip.ctx
    hook = ctx.cfg.hooks.get('regex')
    if hook is not None:
        r = hook(ip, rx, name, args, kwargs)
        if r is not None:
            return r
    pattern, flags = rx.f['pattern'], py_flags(rx.f.get('flags'))
    cargs = [norm(ip, a) for a in args]
    if all(isinstance(a, C) for a in cargs):
        comp = _re.compile(pattern, flags)
        used('re on concrete subjects: computed by the re module itself')
        if name in ('match', 'search'):
            m = getattr(comp, name)(cargs[0].py)
            return C(None) if m is None else Obj('match', regex=rx, subject=cargs[0], concrete=m, groups={})
        if name == 'sub':
            return C(comp.sub(cargs[0].py, cargs[1].py))
        if name == 'split':
            return S(ctx.alloc_list([C(x) for x in comp.split(cargs[0].py)]))
    used('re on symbolic subjects: abstract (arbitrary optional match; groups are arbitrary substrings of the subject)')
    rid = rx.f.get('name') or ('pat:' + pattern)
    if name in ('match', 'search'):
        subj = cargs[0]
        if (kind_of(ip, subj) or resolve_kind(ip, subj, ('str',))) != 'str':
            raise_('TypeError', 'expected string or bytes-like object')
        # whether a pattern matches is a function of the subject (uninterpreted)
        fn = ufun(f'RE_{name.upper()}_{rid}', Str, Bool)
        event = {'kind': 'regex', 'name': rid, 'method': name, 'subject': subj, 'matched': False, 'match': None}
        ctx.ghost.setdefault('events', []).append(event)
        if ctx.branch(fn(str_term(ip, subj))):
            m = Obj('match', regex=rx, subject=subj, concrete=None, groups={})
            event['matched'] = True
            event['match'] = m
            return m
        return C(None)
    if name == 'sub':
        repl, subj = cargs[0], cargs[1]
        if (kind_of(ip, subj) or resolve_kind(ip, subj, ('str',))) != 'str':
            raise_('TypeError', 'expected string or bytes-like object')
        rtext = repl.py if isinstance(repl, C) else None
        if rtext is None:
            f = ufun(f'RESUB2_{rid}', Str, Str, Str)
            return T(f(str_term(ip, repl), str_term(ip, subj)))
        f = ufun(f'RESUB_{rid}_{rtext}', Str, Str)
        return T(f(str_term(ip, subj)))
    if name == 'split':
        subj = cargs[0]
        if (kind_of(ip, subj) or resolve_kind(ip, subj, ('str',))) != 'str':
            raise_('TypeError', 'expected string or bytes-like object')
        n = ctx.fresh('nsplit', Int)
        parts = ctx.fresh('resplit', ArrIntS)
        ctx.assume(n >= 1)
        j = z3.Int('j!rs')
        nref, ctx.heap = ctx.heap.new_list(n, z3.Lambda([j], VStr(z3.Select(parts, j))))
        return S(VList(nref))
    raise OutOfReach(f'regex method {name}')


def match_group(ip, m, idx):
    ctx = ip.ctx
    idx = norm(ip, idx)
    if not isinstance(idx, C):
        raise OutOfReach('symbolic group index')
    key = idx.py
    if m.f['concrete'] is not None:
        try:
            return C(m.f['concrete'].group(key))
        except (IndexError,) as e:
            raise_('IndexError', str(e))
    if key in m.f['groups']:
        return m.f['groups'][key]
    info, ngroups, gdict = group_info(m.f['regex'].f['pattern'])
    if key != 0 and key not in info:
        raise_('IndexError', 'no such group')
    # same group by name and by index
    alias = gdict.get(key) if isinstance(key, str) else None
    if alias is not None and alias in m.f['groups']:
        return m.f['groups'][alias]
    subj = str_term(ip, m.f['subject'])
    hook = ctx.cfg.hooks.get('match_group')
    val = None
    if hook is not None:
        val = hook(ip, m, key)
    if val is None:
        g = ctx.fresh(f'grp_{key}', Str)
        ctx.assume(z3.Length(g) <= z3.Length(subj))
        nd = GROUP_DIGITS.get(m.f['regex'].f['pattern'], {}).get(key)
        if nd is not None:
            # derived from the pattern tree: exactly nd ASCII-or-Unicode decimal digits, which int() accepts
            from .models_calls import PARSE_INT_OK, PARSE_INT
            ctx.assume(z3.And(z3.Length(g) == nd, PARSE_INT_OK(g, z3.IntVal(10)), PARSE_INT(g, z3.IntVal(10)) >= 0,
                              PARSE_INT(g, z3.IntVal(10)) < 10 ** nd))
        alts = GROUP_LITERALS.get(m.f['regex'].f['pattern'], {}).get(key)
        if alts is not None:
            # derived from the pattern tree: the group is an alternation of literals
            ctx.assume(z3.Or([g == z3.StringVal(a) for a in alts]))
        if key != 0 and info[key]:
            isnone = ctx.fresh(f'grpnone_{key}', Bool)
            val = S(z3.If(isnone, VNone, VStr(g)))
        else:
            val = T(g)
    m.f['groups'][key] = val
    if alias is not None:
        m.f['groups'][alias] = val
    fact_hook = ctx.cfg.hooks.get('match_group_fact')
    if fact_hook is not None:
        fact_hook(ip, m, key, val)
    # nested groups: an inner group that participates is a substring of the outer one (derived from the pattern tree)
    nest = GROUP_NESTING.get(m.f['regex'].f['pattern'], {})

    def glen(v):
        if isinstance(v, T):
            return z3.Length(v.t), z3.BoolVal(True)
        if isinstance(v, S):
            return z3.Length(V.s(v.t)), is_str(v.t)
        return None, None
    for k2, v2 in list(m.f['groups'].items()):
        for inner, outer in ((key, k2), (k2, key)):
            for agid, extra in nest.get(inner, []):
                if agid == outer:
                    li, ci = glen(m.f['groups'][inner])
                    lo, co = glen(m.f['groups'][outer])
                    if li is not None and lo is not None:
                        ctx.assume(z3.Implies(z3.And(ci, co), li + extra <= lo))
    return val


def match_method(ip, m, name, args, kwargs):
    ctx = ip.ctx
    if name == 'group':
        return match_group(ip, m, args[0] if args else C(0))
    if m.f['concrete'] is not None:
        cm = m.f['concrete']
        if name == 'span':
            return Obj('tuple', items=[C(x) for x in cm.span()])
        if name == 'start':
            return C(cm.start())
        if name == 'groups':
            return Obj('tuple', items=[C(x) for x in cm.groups()])
        if name == 'groupdict':
            return S(ctx.alloc_dict([(k, C(v)) for k, v in cm.groupdict().items()]))
    if name == 'span':
        subj = str_term(ip, m.f['subject'])
        a, b = ctx.fresh('span_a', Int), ctx.fresh('span_b', Int)
        ctx.assume(z3.And(a >= 0, a <= b, b <= z3.Length(subj)))
        hook = ctx.cfg.hooks.get('match_span')
        if hook is not None:
            hook(ip, m, a, b)
        return Obj('tuple', items=[I(a), I(b)])
    if name == 'start':
        subj = str_term(ip, m.f['subject'])
        key = norm(ip, args[0]).py if args else 0
        memo = m.f.setdefault('starts', {})
        if key not in memo:
            a = ctx.fresh(f'start_{key}', Int)
            g = match_group(ip, m, C(key))
            glen = z3.Length(g.t) if isinstance(g, T) else z3.If(is_str(g.t), z3.Length(V.s(g.t)), 0)
            # a participating group lies inside the subject
            ctx.assume(z3.And(a >= 0, a + glen <= z3.Length(subj)))
            memo[key] = I(a)
        return memo[key]
    raise OutOfReach(f'match method {name}')


def compile_value(ip, pat, flags):
    """re.compile of a symbolic pattern: may raise re.error; yields an opaque regex value."""
    ctx = ip.ctx
    used('re.compile(symbolic pattern): re.error or an opaque regex value')
    if kind_of(ip, pat) != 'str':
        raise_('TypeError', 'first argument must be string or compiled pattern')
    if ctx.choice('re_compile_ok'):
        from .core import VRegex
        return S(VRegex(ctx.fresh('rid', Int)))
    raise_('re.error', 'bad pattern')


def regex_value_method(ip, rx, name, args, kwargs):
    """Methods of a regex *value* (a script-level regex): results are arbitrary values of the documented shape."""
    ctx = ip.ctx
    used('methods of script-level regex values: abstract results')
    cargs = [norm(ip, a) for a in args]
    for a in cargs:
        if kind_of(ip, a) != 'str':
            raise_('TypeError', 'expected string')
    if name == 'search':
        if ctx.choice('rsearch'):
            return Obj('match', regex=Obj('regex', pattern='(?P<x>.)?', flags=None, name='<value>'), subject=cargs[0],
                       concrete=None, groups={}, opaque=True)
        return C(None)
    if name == 'sub':
        if ctx.choice('rsub_ok'):
            return T(ctx.fresh('rsub', Str))
        raise_('re.error', 'bad replacement')
    if name == 'split':
        n = ctx.fresh('nsplit', Int)
        parts = ctx.fresh('resplit', ArrIntS)
        ctx.assume(n >= 1)
        j = z3.Int('j!rvs')
        from .core import VNone as _VN
        nref, ctx.heap = ctx.heap.new_list(n, z3.Lambda([j], VStr(z3.Select(parts, j))))
        return S(VList(nref))
    raise OutOfReach(f'regex value method {name}')
