"""pyvc.models_date — datetime/calendar: assumed contracts (DESIGN.md 3.9). Instants are integers (microseconds);
the civil-calendar decomposition is a family of uninterpreted functions tied together by the constructor facts."""
import z3
from .core import (V, VDate, is_date, is_none, Int, Str, Real, Bool, Val, C, S, B, I, R, T, Obj, is_t)
from .interp import OutOfReach
from .models_ops import norm, numkind, real_term, int_term, raise_, kind_of
from .models_calls import ufun, used, DATE_FIELD, DATE_RANGE, DIM

MKUS = ufun('MKUS', Int, Int, Int, Int, Int, Int, Int, Int)   # civil fields -> microseconds
L2U = ufun('L2U', Int, Int)                            # local naive reading -> UTC instant
LOCOFF = ufun('LOCOFF', Int, Int)                     # UTC offset (microseconds) of the process time zone at a UTC instant


def U2L(us):
    """local naive reading of a UTC instant"""
    return us + LOCOFF(us)
ISOFMT = ufun('ISOFMT', Int, Int, Str)
FROMISO_OK = ufun('FROMISO_OK', Str, Bool)
FROMISO = ufun('FROMISO', Str, Int)
ROUND_HALF_EVEN = ufun('ROUND_HALF_EVEN', Real, Int)
REPLACE_MICRO = ufun('REPLACE_MICRO', Int, Int, Int)


def in_date_range(t):
    """every datetime value denotes an instant in years 1..9999 (assumed total: conversions near the ends of the
    range that would raise OverflowError are outside the model)"""
    return z3.And(t >= -62135596800 * 10 ** 6, t < 253402300800 * 10 ** 6)


def dim_facts(ip, y, m):
    d = DIM(y, m)
    ip.ctx.assume(z3.And(d >= 28, d <= 31))
    return d


def _int_arg(ip, val, what):
    val = norm(ip, val)
    if numkind(ip, val) != 'int':
        raise_('TypeError', f'{what}: integer argument expected, got float')
    return int_term(ip, val)


def make_datetime(ip, kind, parts):
    ctx = ip.ctx
    y, m, d, h, mi, s, us = parts
    used('datetime.datetime(y,m,d,h,mi,s,us)/datetime.date: TypeError for float components; ValueError iff a '
         'component is out of range (1<=y<=9999, 1<=m<=12, 1<=d<=DIM(y,m), h<24, mi<60, s<60, us<1e6)')
    ok_ym = z3.And(y >= 1, y <= 9999, m >= 1, m <= 12)
    if not ctx.branch(ok_ym):
        raise_('ValueError', 'year/month out of range')
    dm = dim_facts(ip, y, m)
    ok = z3.And(d >= 1, d <= dm, h >= 0, h <= 23, mi >= 0, mi <= 59, s >= 0, s <= 59, us >= 0, us <= 999999)
    if not ctx.branch(ok):
        raise_('ValueError', 'day/time component out of range')
    t = MKUS(y, m, d, h, mi, s, us)
    ctx.assume(in_date_range(t))
    for name, val in zip(('year', 'month', 'day', 'hour', 'minute', 'second', 'microsecond'), parts):
        ctx.assume(DATE_FIELD[name](t) == val)
    return S(VDate(z3.IntVal(kind), t))


def date_call(ip, name, args, kwargs):
    ctx = ip.ctx
    if name == 'datetime.datetime':
        names = ['year', 'month', 'day', 'hour', 'minute', 'second', 'microsecond']
        vals = list(args)
        parts = []
        for ix, n in enumerate(names):
            if ix < len(vals):
                parts.append(_int_arg(ip, vals[ix], n))
            elif n in kwargs:
                parts.append(_int_arg(ip, kwargs[n], n))
            elif ix < 3:
                raise_('TypeError', f'missing {n}')
            else:
                parts.append(z3.IntVal(0))
        return make_datetime(ip, 1, parts)
    if name == 'datetime.date':
        parts = [_int_arg(ip, a, 'date') for a in args] + [z3.IntVal(0)] * 4
        return make_datetime(ip, 0, parts)
    if name == 'datetime.timedelta':
        ms = norm(ip, kwargs.get('milliseconds', C(0)))
        if numkind(ip, ms) is None:
            raise_('TypeError', 'unsupported type for timedelta milliseconds component')
        used('datetime.timedelta(milliseconds=x): microseconds = round-half-even(1000x); exact for integral 1000x; '
             'OverflowError iff |days| > 999999999')
        x = real_term(ip, ms) * 1000
        us = z3.If(z3.IsInt(x), z3.ToInt(x), ROUND_HALF_EVEN(x))
        lim = z3.IntVal(1000000000 * 86400 * 10 ** 6)
        if ctx.branch(z3.Or(us >= lim, us <= -lim)):
            raise_('OverflowError', 'days=...; must have magnitude <= 999999999')
        return Obj('timedelta', us=z3.simplify(us))
    if name == 'calendar.monthrange':
        y = _int_arg(ip, args[0], 'year')
        m = _int_arg(ip, args[1], 'month')
        used('calendar.monthrange(y, m): ValueError iff month not in 1..12; [1] = DIM(y, m) in 28..31')
        if not ctx.branch(z3.And(m >= 1, m <= 12)):
            raise_('ValueError', 'bad month number')
        return Obj('tuple', items=[I(ctx.fresh('weekday', Int)), I(dim_facts(ip, y, m))])
    if name in ('datetime.datetime.now',):
        t = ctx.fresh('now', Int)
        return S(VDate(z3.IntVal(1), t))
    if name in ('datetime.date.today',):
        t = ctx.fresh('today', Int)
        return S(VDate(z3.IntVal(0), t))
    if name == 'datetime.datetime.fromisoformat':
        used('datetime.fromisoformat: ValueError or an aware/naive datetime (FROMISO uninterpreted)')
        s = norm(ip, args[0])
        from .models_ops import str_term
        st = str_term(ip, s)
        if ctx.branch(FROMISO_OK(st)):
            return S(VDate(z3.IntVal(2), FROMISO(st), ufun('FROMISO_OFF', Str, Int)(st)))
        raise_('ValueError', 'Invalid isoformat string')
    raise OutOfReach(f'{name}')


def date_method(ip, d, name, args, kwargs):
    ctx = ip.ctx
    t = d.t
    kind, us = z3.simplify(V.kind(t)), z3.simplify(V.us(t))
    if name == 'astimezone':
        used('datetime.astimezone(): naive values are read as local time (L2U); assumed total (no OverflowError '
             'near year 1/9999)')
        if ctx.branch(kind == 0):
            raise_('AttributeError', "'datetime.date' object has no attribute 'astimezone'")
        if ctx.branch(kind == 1):
            ctx.assume(in_date_range(L2U(us)))
            return S(VDate(z3.IntVal(2), L2U(us), LOCOFF(L2U(us))))
        return S(VDate(z3.IntVal(2), us, LOCOFF(us)))
    if name == 'replace':
        if 'tzinfo' in kwargs:
            tz = norm(ip, kwargs['tzinfo'])
            if not (isinstance(tz, C) and tz.py is None):
                raise OutOfReach('replace(tzinfo=<non None>)')
            used('aware.replace(tzinfo=None): the local naive reading U2L(instant); U2L(L2U(x)) = x for local times that exist')
            if ctx.branch(kind == 2):
                # the wall-clock reading in the value's own zone
                wall = z3.simplify(us + V.off(t))
                ctx.assume(in_date_range(wall))
                ctx.assume(L2U(U2L(us)) == us)
                return S(VDate(z3.IntVal(1), wall))
            return S(VDate(kind, us))
        if 'microsecond' in kwargs:
            m = _int_arg(ip, kwargs['microsecond'], 'microsecond')
            if not ctx.branch(z3.And(m >= 0, m <= 999999)):
                raise_('ValueError', 'microsecond must be in 0..999999')
            used('datetime.replace(microsecond=m): same instant with the microsecond field replaced')
            nus = us - DATE_FIELD['microsecond'](us) + m
            ctx.assume(z3.And(DATE_FIELD['microsecond'](us) >= 0, DATE_FIELD['microsecond'](us) <= 999999))
            for f in ('year', 'month', 'day', 'hour', 'minute', 'second'):
                ctx.assume(DATE_FIELD[f](nus) == DATE_FIELD[f](us))
            ctx.assume(DATE_FIELD['microsecond'](nus) == m)
            return S(VDate(kind, z3.simplify(nus), V.off(t)))
        raise OutOfReach('datetime.replace of other fields')
    if name == 'isoformat':
        used('isoformat(): ISOFMT(kind, instant) uninterpreted')
        return T(ISOFMT(kind, us))
    raise OutOfReach(f'datetime method {name}')
