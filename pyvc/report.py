"""pyvc.report — turns function reports into a property verdict: evidence file, replay files, VIOLATION /
KNOWN-FINDING / UNDECIDED / CHECKER-ERROR lines and the exit code (DESIGN.md section 2)."""
import json
import os
import re
import sys
import time

VERIF = os.path.dirname(os.path.dirname(os.path.abspath(__file__)))
EVIDENCE_DIR = os.path.join(VERIF, 'evidence' if os.environ.get('PYVC_REPO', '/repo') == '/repo' else 'evidence-scratch')
REPLAY_DIR = os.path.join(VERIF, 'replays')
KNOWN_FILE = os.path.join(VERIF, 'known_findings.json')

GLOBAL_ASSUMPTIONS = [
    'Python ints are mathematical integers and floats mathematical reals: IEEE-754 rounding, inf, nan and -0.0 are outside the logic',
    'interpreter resources (recursion depth, memory, time) are outside the logic',
    'the CPython operation models in pyvc/models_*.py (subscript, slice, del, list/dict/str methods, int(), float(), isinstance) are trusted; they are cross-checked against CPython on concrete grids, not proved',
    'values are acyclic where a function recurses over them (value_json, value_compare)',
]


def load_known():
    if not os.path.exists(KNOWN_FILE):
        return []
    with open(KNOWN_FILE, 'r', encoding='utf-8') as fh:
        return [e for e in json.load(fh).get('findings', []) if e.get('status') == 'known']


def match_known(known, prop, failure):
    """A failure is a known finding only if property, obligation pattern and witness class all match."""
    for e in known:
        if e['property'] != prop:
            continue
        if not re.fullmatch(e['obligation'], failure['obligation']):
            continue
        wc = e.get('witness')
        if wc:
            obs = failure.get('replay', {}).get('observed', {})
            text = json.dumps({'observed': obs, 'inputs': failure.get('inputs')}, sort_keys=True)
            if not re.search(wc, text):
                continue
        return e
    return None


class PropertyRun:
    def __init__(self, prop, tier, level='proof'):
        self.prop = prop
        self.tier = tier
        self.level = level
        self.t0 = time.time()
        self.functions = []          # function reports from pyvc.run
        self.failures = []           # dicts: obligation, function, inputs, replay, solver
        self.undecided = []
        self.errors = []
        self.not_proved = []         # out-of-reach functions / bounded stand-ins
        self.extra = {}
        self.assumptions = list(GLOBAL_ASSUMPTIONS)
        self.trusted = set()
        self.samples = []
        self.obligations = 0
        self.discharged = 0
        self.backends = {}
        self.solver_s = 0.0
        self.bounded = []
        self.unexpected_unreached = []
        self.force_level = None
        self._searched = set()
        self._fn_search = {}
        self._fn_found = {}
        self._witnessed = {}
        self.explanation = ''

    # -- intake -----------------------------------------------------------------------------
    def add_function_report(self, rep, contract=None, replayer=None, select=None):
        """select(name) -> bool: which obligations of the report belong to this property (clauses tagged with another
        property's id are that property's business); default: all"""
        if select is not None:
            rep = dict(rep)
            rep['obligations'] = [o for o in rep.get('obligations', []) if select(o['name'])]
        self.functions.append(rep)
        if rep.get('error'):
            self.errors.append(f"{rep['function']}: {rep['error'][-600:]}")
            return
        if rep.get('out_of_reach') or (rep.get('error') and contract is not None and hasattr(contract, 'model')):
            why = rep.get('out_of_reach') or ('checker error: ' + rep['error'][-300:])
            self.not_proved.append(f"{rep['function']}{rep.get('case', '')}: not proved in this run — {why}")
            if 'outside the registered tiers' not in why:
                self.unexpected_unreached.append(rep['function'] + rep.get('case', ''))
                self.sampled_fallback(rep, contract)
                self.witness_fallback(rep, contract)
            return
        for t in rep.get('trusted', []):
            self.trusted.add(t)
        self.solver_s += rep.get('solver_s', 0)
        if rep.get('bounded'):
            self.bounded.append(rep['function'])
        for ob in rep['obligations']:
            self.obligations += 1
            if ob['verdict'] == 'unsat':
                self.discharged += 1
                self.backends[ob['backend']] = self.backends.get(ob['backend'], 0) + 1
                if len(self.samples) < 6 and ob['kind'] == 'post':
                    self.samples.append({'function': rep['function'], 'obligation': ob['name'], 'path': ob['path'],
                                         'verdict': 'unsat', 'backend': ob['backend'], 'secs': ob['secs']})
            elif ob['verdict'] in ('sat-weakened', 'unknown') and contract is not None and \
                    getattr(contract, 'native_witness', None) and any(k in ob['name'] for k in contract.native_witness):
                # the obligation has a fixed native witness program (recorded when the finding was first derived):
                # run it against this tree; it decides
                from .replay import run_witness
                key = next(k for k in contract.native_witness if k in ob['name'])
                res = run_witness(contract.native_witness[key])
                if res.get('violates'):
                    self.failures.append({'obligation': ob['name'], 'function': rep['function'], 'path': ob['path'],
                                          'inputs': {'native_witness': key}, 'replay': {'reproduced': True, 'observed': res},
                                          'solver': {'backend': ob['backend'], 'verdict': ob['verdict'] + '; fixed native witness reproduces',
                                                     'output': ob.get('reason', '')}})
                else:
                    self.undecided.append({'obligation': ob['name'], 'function': rep['function'],
                                           'reason': 'undecided; the recorded native witness does not reproduce: ' + str(res)[:200]})
            elif ob['verdict'] == 'sat-weakened':
                # undecided obligation with a candidate counter-model from a weakened query: a violation only if the
                # native replay reproduces it
                rp = {}
                if ob.get('inputs') and replayer is not None:
                    try:
                        rp = replayer(contract, ob['inputs'])
                    except Exception as e:
                        rp = {'error': f'{type(e).__name__}: {e}'}
                if rp.get('reproduced'):
                    self.failures.append({'obligation': ob['name'], 'function': rep['function'], 'path': ob['path'],
                                          'inputs': ob.get('inputs'), 'replay': rp,
                                          'solver': {'backend': ob['backend'], 'verdict': 'unknown; candidate model from the quantifier-free weakening reproduced natively',
                                                     'output': ob.get('reason', '')}})
                else:
                    self.undecided.append({'obligation': ob['name'], 'function': rep['function'], 'reason': ob.get('reason', '')})
            elif ob['verdict'] in ('sat', 'sat-no-model'):
                fail = {'obligation': ob['name'], 'function': rep['function'], 'path': ob['path'],
                        'inputs': ob.get('inputs'), 'solver': {'backend': ob['backend'], 'verdict': ob['verdict'],
                                                                'output': ob.get('reason', '')}}
                if ob.get('inputs') and replayer is not None:
                    try:
                        fail['replay'] = replayer(contract, ob['inputs'])
                    except Exception as e:  # replay trouble is not a verdict
                        fail['replay'] = {'error': f'{type(e).__name__}: {e}'}
                ws = getattr(contract, 'native_witness', None) if contract is not None else None
                wkey = next((k for k in ws if k in ob['name']), None) if ws else None
                if not (fail.get('replay') or {}).get('reproduced') and wkey is not None:
                    # the counter-model is not a replayable call; the clause has a fixed native witness program: run it
                    if ('witness', wkey) not in self._witnessed:
                        from .replay import run_witness
                        self._witnessed[('witness', wkey)] = run_witness(ws[wkey])
                    res = self._witnessed[('witness', wkey)]
                    if res.get('violates'):
                        fail['inputs'] = {'native_witness': wkey, 'solver_model_inputs': fail.get('inputs')}
                        fail['replay'] = {'reproduced': True, 'observed': res,
                                          'input_source': 'fixed native witness program of the clause (the solver model was not a replayable call)'}
                if not (fail.get('replay') or {}).get('reproduced') and contract is not None and hasattr(contract, 'model') \
                        and rep['function'] not in self._searched:
                    # the counter-model is not a replayable call (an intermediate loop state, or values the concretiser
                    # cannot build): search the function's argument model natively for an input that breaks the contract
                    self._searched.add(rep['function'])
                    found = self.input_search(contract)
                    self._fn_search[rep['function']] = self._search_stats
                    self._fn_found[rep['function']] = found
                    if found is not None:
                        fail['inputs'] = found['inputs']
                        fail['replay'] = {'reproduced': True, 'observed': found['observed'], 'failed_clauses': found['failed_clauses'],
                                          'input_source': 'native sampled search of the argument model (the solver model was not a replayable call)'}
                rp = fail.get('replay') or {}
                st = self._fn_search.get(rep['function'])
                model_ok = (not ob.get('inputs')) or (bool(rp.get('post')) and all(v is True for v in rp['post'].values())
                                                      and all(v is not False for v in (rp.get('pre') or {}).values()))
                if not rp.get('reproduced') and model_ok and st and st['failing'] == 0 and st['evaluated'] >= 50 \
                        and st['undetermined'] == 0:
                    # positive native evidence against the counter-model: the function satisfies every clause of its contract
                    # on the model's own input (where it is a call at all) and on every input of the native search, with
                    # no clause left undetermined. The failed obligation is then an artefact of the abstraction (typically
                    # a loop invariant that is no longer inductive for a differently written but correct loop): undecided,
                    # not a violation.
                    self.undecided.append({'obligation': ob['name'], 'function': rep['function'],
                                           'reason': f"obligation failed but no native execution breaks the contract ({st['evaluated']} "
                                                     'searched inputs and the counter-model input all satisfy every clause): '
                                                     'counter-model attributed to the abstraction'})
                else:
                    self.failures.append(fail)
            else:
                self.undecided.append({'obligation': ob['name'], 'function': rep['function'], 'reason': ob.get('reason', '')})

    def input_search(self, contract):
        self._search_stats = None
        try:
            from .sampled import sampled_check
            from .interp import Engine, Config, Ctx, Interp
            from .source import Repo
            ip = Interp(Ctx(Engine(Repo(), Config()), []))
            evals, _distinct, fails = sampled_check(contract, ip, n=120, seed=int(os.environ.get('VERIF_SEED', '0') or 0))
            self._search_stats = {'evaluated': evals, 'undetermined': getattr(sampled_check, 'last_undetermined', None),
                                  'failing': len(fails)}
        except Exception:
            return None
        return fails[0] if fails else None

    def witness_fallback(self, rep, contract):
        """bounded stand-in for a function the verifier cannot reach: the fixed native witness programs recorded for the
        contract's clauses are run against this tree"""
        ws = getattr(contract, 'native_witness', None) if contract is not None else None
        if not ws:
            return
        from .replay import run_witness
        done = set()
        for key, code in ws.items():
            if id(code) in done or key in getattr(contract, 'fallback_skip', ()):
                continue
            done.add(id(code))
            res = run_witness(code)
            self.bounded.append(f"{rep['function']}: bounded stand-in — native witness program for `{key}`")
            if res.get('violates'):
                self.failures.append({'obligation': f"{rep['function']}.witness.{key}", 'function': rep['function'], 'path': '',
                                      'inputs': {'native_witness': key}, 'replay': {'reproduced': True, 'observed': res},
                                      'solver': {'backend': 'native-witness', 'verdict': 'the recorded witness program fails on this tree', 'output': ''}})
                return

    def sampled_fallback(self, rep, contract):
        """bounded stand-in for a function the verifier cannot reach: run-time contract check on native samples"""
        if contract is None or not hasattr(contract, 'model'):
            return
        try:
            from .sampled import sampled_check
            from .interp import Engine, Config, Ctx, Interp
            from .source import Repo
            ip = Interp(Ctx(Engine(Repo(), Config()), []))
            evals, distinct, fails = sampled_check(contract, ip, n=80, seed=int(os.environ.get('VERIF_SEED', '0') or 0))
        except Exception as e:
            self.errors.append(f"{rep['function']}: sampled fallback failed: {type(e).__name__}: {e}")
            return
        self.bounded.append(f"{rep['function']}: bounded stand-in — run-time contract check on {evals} native samples ({distinct} distinct outcomes)")
        for f in fails[:1]:
            self.failures.append({'obligation': f"{rep['function']}.sampled." + '+'.join(f['failed_clauses']),
                                  'function': rep['function'], 'path': '', 'inputs': f['inputs'],
                                  'replay': {'reproduced': True, 'observed': f['observed']},
                                  'solver': {'backend': 'native-sampled', 'verdict': 'contract clause false on a native execution', 'output': ''}})

    def add_obligation(self, name, verdict, backend='z3', secs=0.0, detail=None, function=None, inputs=None, replay=None):
        """An obligation discharged outside the function harness (table lemmas, spec lemmas, regex-language facts)."""
        self.obligations += 1
        self.solver_s += secs
        if verdict == 'unsat':
            self.discharged += 1
            self.backends[backend] = self.backends.get(backend, 0) + 1
            if len(self.samples) < 10:
                self.samples.append({'obligation': name, 'verdict': 'unsat', 'backend': backend, 'secs': round(secs, 4)})
        elif verdict == 'sat':
            self.failures.append({'obligation': name, 'function': function or '', 'path': '', 'inputs': inputs,
                                  'replay': replay or {}, 'solver': {'backend': backend, 'verdict': 'sat',
                                                                     'output': detail or ''}})
        else:
            self.undecided.append({'obligation': name, 'function': function or '', 'reason': detail or ''})

    # -- verdict ----------------------------------------------------------------------------
    def finish(self, checker_cmd):
        os.makedirs(EVIDENCE_DIR, exist_ok=True)
        known = load_known()
        lines = []
        violations = []
        known_hits = {}
        for f in self.failures:
            e = match_known(known, self.prop, f)
            if e is not None:
                known_hits.setdefault(e['id'], (e, []))[1].append(f)
            else:
                violations.append(f)
        for kid, (e, fs) in known_hits.items():
            lines.append(f"KNOWN-FINDING: property={self.prop} {e['what']} [{kid}; {len(fs)} failing obligation(s)]")
        # group violations by (function, obligation): one replay file each
        seen = set()
        nviol = 0
        for f in violations:
            key = (f['function'], f['obligation'])
            if key in seen:
                continue
            seen.add(key)
            nviol += 1
            os.makedirs(REPLAY_DIR, exist_ok=True)
            path = os.path.join(REPLAY_DIR, f"{self.prop}-{nviol:02d}.json")
            rp = f.get('replay') or {}
            reproduced = bool(rp.get('reproduced'))
            doc = {'property': self.prop, 'obligation': f['obligation'], 'function': f['function'],
                   'path_decisions': f['path'], 'concrete_inputs': f['inputs'], 'replay': rp,
                   'solver_output': f['solver'], 'failing_input_found': reproduced,
                   'how_to_replay': f'./check {self.prop} --replay {path}'}
            with open(path, 'w', encoding='utf-8') as fh:
                json.dump(doc, fh, indent=1, default=str)
            tail = '' if reproduced else ' no-failing-input-found'
            lines.append(f'VIOLATION property={self.prop} replay={path}{tail}')
            lines.append(f"  obligation {f['obligation']} in {f['function']}" +
                         (f" — native replay: {json.dumps(rp.get('observed', {}))[:300]}" if reproduced else ''))
        for u in self.undecided[:20]:
            lines.append(f"UNDECIDED property={self.prop} obligation={u['obligation']} {u['reason'][:120]}")
        for e in self.errors[:10]:
            lines.append(f'CHECKER-ERROR property={self.prop} {e[-400:]}')
        if self.obligations == 0 and not self.errors:
            self.errors.append('zero obligations generated')
            lines.append(f'CHECKER-ERROR property={self.prop} zero obligations generated (vacuity guard)')
        proved_all = (self.discharged == self.obligations) and not self.not_proved and not self.bounded
        level = self.level if (self.level != 'proof' or proved_all or self.failures) else 'other'
        if self.force_level:
            level = self.force_level
        coverage = {
            'obligations': self.obligations,
            'discharged': self.discharged,
            'checker_cmd': checker_cmd,
            'trusted_base': sorted(self.trusted),
            'backends': self.backends,
            'solver_seconds': round(self.solver_s, 3),
            'functions_under_contract': [
                {'function': r['function'] + r.get('case', ''), 'paths': r.get('paths', 0), 'cached': bool(r.get('cached')), 'obligations': len(r.get('obligations', [])),
                 'discharged': sum(1 for o in r.get('obligations', []) if o['verdict'] == 'unsat'),
                 'wall_s': r.get('wall_s'), 'out_of_reach': r.get('out_of_reach')}
                for r in self.functions],
            'not_proved': self.not_proved,
            'bounded_stand_ins': self.bounded,
            'samples': self.samples or [{'note': 'no discharged obligation to sample'}],
            'known_findings_matched': sorted(known_hits),
            'explanation': self.explanation or (
                'Every obligation is generated from the current source of /repo by symbolic execution of the real '
                'function bodies (pyvc) against sidecar contracts and discharged by z3 (cvc5 for z3 unknowns).'),
        }
        coverage.update(self.extra)
        ev = {
            'property_id': self.prop,
            'tier': self.tier,
            'seed': int(os.environ.get('VERIF_SEED', '0') or 0),
            'level': level,
            'coverage': coverage,
            'assumptions': self.assumptions,
            'wall_s': round(time.time() - self.t0, 3),
            'violations': nviol,
        }
        with open(os.path.join(EVIDENCE_DIR, f'{self.prop}.json'), 'w', encoding='utf-8') as fh:
            json.dump(ev, fh, indent=1, default=str)
        for line in lines:
            print(line)
        summary = (f'{self.prop}: {self.discharged}/{self.obligations} obligations discharged, '
                   f'{len(self.functions)} functions, {nviol} violation(s), {len(known_hits)} known finding(s), '
                   f'{len(self.undecided)} undecided, {len(self.not_proved)} not proved, '
                   f'{round(time.time() - self.t0, 1)} s')
        print(summary)
        for u in self.unexpected_unreached:
            print(f'UNDECIDED property={self.prop} function {u} is outside the verifier\'s reach on this tree (see evidence: not_proved / bounded_stand_ins)')
        if nviol:
            return 1
        if self.errors:
            return 3
        if self.undecided or self.unexpected_unreached:
            return 2
        return 0
