"""pyvc.sampled — bounded stand-in: when a function cannot be brought within the verifier's reach (restructured
beyond the supported subset, contract anchor lost), its contract is still checked as a run-time contract on a fixed
number of natively executed sample inputs. Labelled `bounded` in the evidence and never counted as proved."""
import os
import random

from .replay import run_native, evaluate_contract

POOL = [None, True, False, 0, 1, 2, 3, -1, {'$float': '0/1'}, {'$float': '1/1'}, {'$float': '2/1'}, {'$float': '3/2'},
        {'$float': '-1/1'}, '', 'a', 'abc', 'a,b', ' x ']


def sample_inputs(rng, model, maxargs):
    objects = {}
    counter = [100]

    def new_list(items):
        oid = f'L{counter[0]}'
        counter[0] += 1
        objects[oid] = {'kind': 'list', 'items': items}
        return {'$ref': oid}

    def new_dict(items):
        oid = f'D{counter[0]}'
        counter[0] += 1
        objects[oid] = {'kind': 'dict', 'items': items}
        return {'$ref': oid}
    shared = [new_list([1, {'$float': '2/1'}, 'x', None]), new_list([]), new_list(['b', 'a', 'c']),
              new_list([3, 1, {'$float': '2/1'}, None, True]), new_dict([['a', 1], ['b', None]]), new_dict([])]

    def pick(ty):
        r = rng.random()
        if ty == 'array' and r < 0.8:
            return rng.choice(shared[:4])
        if ty == 'object' and r < 0.8:
            return rng.choice(shared[4:])
        if ty == 'number' and r < 0.8:
            return rng.choice([0, 1, 2, 3, -1, {'$float': '0/1'}, {'$float': '1/1'}, {'$float': '2/1'}, {'$float': '3/2'}, 5])
        if ty == 'string' and r < 0.8:
            return rng.choice(['', 'a', 'abc', 'a,b', ' x ', 'b'])
        if ty == 'boolean' and r < 0.8:
            return rng.choice([True, False])
        return rng.choice(POOL + shared)
    n = rng.randint(0, maxargs + 1)
    args = []
    for i in range(n):
        ty = model[i].get('type') if model and i < len(model) else None
        args.append(pick(ty))
    argsref = new_list(args)
    return {'objects': objects, 'args': [argsref, None]}


def sampled_check(contract, ip, n=80, seed=0):
    """returns (evaluations, distinct outcomes, failures[list of (inputs, observed, failed clauses)])"""
    rng = random.Random(1000 + seed)
    model = contract.model(ip) if hasattr(contract, 'model') else None
    maxargs = contract.maxargs if getattr(contract, 'maxargs', None) is not None else (len(model) if model else 2)
    maxargs = getattr(contract, 'sample_args', maxargs)
    module, function = contract.qual.split('.', 1)
    failures = []
    outcomes = set()
    evals = 0
    undetermined = 0
    for _ in range(n):
        inputs = sample_inputs(rng, model, maxargs)
        observed, err, next_id = run_native(module, function, inputs)
        if observed is None:
            continue
        evals += 1
        outcomes.add((observed['kind'], observed.get('exc_class'), str(observed.get('value'))[:40]))
        verdicts, pre_ok = evaluate_contract(contract, inputs, observed, next_id, timeout_ms=3000)
        if any(v is False for v in pre_ok.values()):
            continue
        bad = [k for k, v in verdicts.items() if v is False]
        if any(v is None for v in verdicts.values()):
            undetermined += 1
        if bad:
            failures.append({'inputs': inputs, 'observed': {k: observed[k] for k in observed if k != 'objects'},
                             'failed_clauses': bad})
            if len(failures) >= 3:
                break
    sampled_check.last_undetermined = undetermined
    return evals, len(outcomes), failures
