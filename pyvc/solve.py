"""pyvc.solve — discharges obligations: z3 first, cvc5 takes z3's unknowns. Queries travel as SMT-LIB text to a
process pool, so every obligation is an independent solver run with its own timeout."""
import multiprocessing as mp
import os
import subprocess
import tempfile
import time
import z3

Z3_TIMEOUT_MS = int(os.environ.get('PYVC_Z3_TIMEOUT_MS', '10000'))
CVC5_TIMEOUT_MS = int(os.environ.get('PYVC_CVC5_TIMEOUT_MS', '10000'))


def query_text(pc, goal, probes=None):
    """SMT-LIB text of pc /\\ not goal (unsat = discharged). probes: {name: term} to read back from a model."""
    s = z3.Solver()
    for f in pc:
        s.add(f)
    s.add(z3.Not(goal))
    for name, term in (probes or {}).items():
        s.add(z3.Const(name, term.sort()) == term)
    return s.to_smt2()


def _solve_one(job):
    key, text, probe_names, timeout_ms, use_cvc5 = job
    t0 = time.time()
    ctx = z3.Context()
    s = z3.Solver(ctx=ctx)
    s.set('timeout', timeout_ms)
    try:
        s.from_string(text)
        r = s.check()
    except z3.Z3Exception as e:
        return key, 'error', 'z3', time.time() - t0, {'error': str(e)}
    res = str(r)
    info = {}
    if r == z3.sat:
        m = s.model()
        vals = {}
        for d in m.decls():
            if d.name() in probe_names:
                try:
                    vals[d.name()] = m[d].sexpr()
                except z3.Z3Exception:
                    vals[d.name()] = '?'
        info['model'] = vals
        return key, 'sat', 'z3', time.time() - t0, info
    if r == z3.unsat:
        return key, 'unsat', 'z3', time.time() - t0, info
    info['reason'] = s.reason_unknown()
    t_z3 = time.time() - t0
    if use_cvc5:
        r5, out = run_cvc5(text, CVC5_TIMEOUT_MS)
        if r5 in ('unsat', 'sat'):
            info['cvc5_output'] = out[:2000]
            return key, r5, 'cvc5', time.time() - t0, info
        info['cvc5'] = out[:500]
    return key, 'unknown', 'z3+cvc5' if use_cvc5 else 'z3', time.time() - t0, info


def run_cvc5(text, timeout_ms):
    with tempfile.NamedTemporaryFile('w', suffix='.smt2', delete=False) as fh:
        fh.write('(set-logic ALL)\n' + text)
        path = fh.name
    try:
        p = subprocess.run(['/usr/bin/cvc5', '--strings-exp', f'--tlimit={timeout_ms}', path],
                           capture_output=True, text=True, timeout=timeout_ms / 1000 + 5)
        out = (p.stdout + p.stderr).strip()
        first = out.splitlines()[0] if out else ''
        return (first if first in ('sat', 'unsat') else 'unknown'), out
    except subprocess.TimeoutExpired:
        return 'unknown', 'timeout'
    finally:
        os.unlink(path)


def solve_all(jobs, workers=None):
    """jobs: list of (key, smt2 text, probe names, timeout_ms, use_cvc5). Returns {key: (result, backend, secs, info)}"""
    workers = workers or min(16, os.cpu_count() or 4)
    out = {}
    if not jobs:
        return out
    if workers == 1 or len(jobs) <= 2:
        for job in jobs:
            k, r, b, t, info = _solve_one(job)
            out[k] = (r, b, t, info)
        return out
    with mp.get_context('fork').Pool(workers) as pool:
        for k, r, b, t, info in pool.imap_unordered(_solve_one, jobs, chunksize=1):
            out[k] = (r, b, t, info)
    return out
