"""pyvc.interp — path-forking symbolic execution of the real Python source (AST), see DESIGN.md section 3.

Exploration is depth-first by re-execution: a path is identified by its list of branch decisions; when a new
two-way feasible branch is met, the alternative decision list is pushed on the work list and the function is
re-executed from the start for it. That keeps the interpreter in direct style (no state copying).
"""

import ast
import os
import z3

from .core import (
    V, VNone, VBool, VInt, VFloat, VStr, VList, VDict, VDate, VFunc, VRegex, VOther,
    is_none, is_bool, is_int, is_float, is_str, is_list, is_dict, is_date, is_func, is_regex, is_other,
    Str, Int, Real, Bool, ArrIntV, ArrStrV, ArrStrB, ArrIntS, Heap, HeapSort,
    numval, intval, trunc, p_isinstance_number, p_isinstance_int, p_integral, wf_value,
    Val, C, S, B, I, R, T, Obj, conc_to_term, is_t, is_f)
from .source import loops_of, assigned_names


# ---------------------------------------------------------------------------------------------
# control-flow signals
# ---------------------------------------------------------------------------------------------

_QF = {}        # ast id -> term (kept alive) for subterms known to be free of forall/exists


def has_quantifier(e):
    """does the formula contain a forall/exists (lambdas do not count)"""
    stack = [e]
    visited = []
    found = False
    seen = set()
    while stack:
        x = stack.pop()
        i = x.get_id()
        if i in _QF or i in seen:
            continue
        seen.add(i)
        visited.append(x)
        if z3.is_quantifier(x):
            if not x.is_lambda():
                found = True
                break
            stack.append(x.body())
        elif z3.is_app(x):
            n = x.num_args()
            for j in range(n):
                stack.append(x.arg(j))
    if not found:
        for x in visited:
            _QF[x.get_id()] = x
    return found


def split_fact(f, hyp=None):
    """Split a fact into conjuncts, distributing implications over conjunctions in the consequent (so that
    quantified conjuncts can be separated from quantifier-free ones)."""
    if not has_quantifier(f):
        return [f if hyp is None else z3.Implies(hyp, f)]
    if z3.is_and(f):
        out = []
        for c in f.children():
            out.extend(split_fact(c, hyp))
        return out
    if z3.is_implies(f):
        p, q = f.children()
        return split_fact(q, p if hyp is None else z3.And(hyp, p))
    if z3.is_or(f) and len(f.children()) == 2 and z3.is_not(f.children()[0]):
        # simplify() turns p => q into (not p) or q
        p, q = f.children()[0].children()[0], f.children()[1]
        return split_fact(q, p if hyp is None else z3.And(hyp, p))
    return [f if hyp is None else z3.Implies(hyp, f)]


class PyRaise(Exception):
    def __init__(self, exc):
        super().__init__(str(exc))
        self.exc = exc


class _Return(Exception):
    def __init__(self, val):
        super().__init__()
        self.val = val


class _Break(Exception):
    pass


class _Continue(Exception):
    pass


class PathEnd(Exception):
    """The path stops here (infeasible, end of a symbolic loop iteration, bounded cut)."""
    def __init__(self, reason):
        super().__init__(reason)
        self.reason = reason


class OutOfReach(Exception):
    """The code uses something outside the supported subset: the function is not proved."""


# ---------------------------------------------------------------------------------------------
# exception classes
# ---------------------------------------------------------------------------------------------

BUILTIN_EXC = {
    'BaseException': None, 'Exception': 'BaseException', 'ArithmeticError': 'Exception',
    'ZeroDivisionError': 'ArithmeticError', 'OverflowError': 'ArithmeticError', 'LookupError': 'Exception',
    'IndexError': 'LookupError', 'KeyError': 'LookupError', 'TypeError': 'Exception', 'ValueError': 'Exception',
    'AttributeError': 'Exception', 'StopIteration': 'Exception', 'RuntimeError': 'Exception',
    'RecursionError': 'RuntimeError', 'UnicodeError': 'ValueError', 'OSError': 'Exception',
    'JSONDecodeError': 'ValueError', 'ValidationError': 'Exception', 're.error': 'Exception',
    'SchemaMarkdownParserError': 'Exception', 'StatisticsError': 'ValueError', 'csv.Error': 'Exception',
}


def make_exc(cls, args=(), **fields):
    return Obj('exc', cls=cls, args=list(args), fields=dict(fields), tests={})


class Frame:
    __slots__ = ('module', 'qual', 'env', 'fn_node', 'cur_exc')

    def __init__(self, module, qual, env, fn_node=None):
        self.module, self.qual, self.env, self.fn_node = module, qual, env, fn_node
        self.cur_exc = None


# ---------------------------------------------------------------------------------------------
# Engine / Ctx
# ---------------------------------------------------------------------------------------------

class Config:
    def __init__(self, contracts=None, inline=(), unroll=0, branch_timeout_ms=2000, loop_specs=None,
                 callable_model=None, hooks=None):
        self.contracts = contracts or {}       # qualname -> contract object (see contracts/)
        self.inline = set(inline)              # qualnames executed inline
        self.unroll = unroll                   # bound for loops without an invariant (0 = out of reach)
        self.branch_timeout_ms = branch_timeout_ms
        self.loop_specs = loop_specs or {}     # (qualname, ordinal) -> LoopSpec
        self.callable_model = callable_model   # how unknown callable values behave
        self.hooks = hooks or {}               # ghost hooks: name -> callable(ctx, frame, node, ...)


class Obligation:
    __slots__ = ('name', 'pc', 'goal', 'meta', 'key')

    def __init__(self, name, pc, goal, meta, key):
        self.name, self.pc, self.goal, self.meta, self.key = name, pc, goal, meta, key


class PathResult:
    def __init__(self, ctx, kind, value):
        self.pc = list(ctx.pc)
        self.heap = ctx.heap
        self.kind = kind           # 'return' | 'raise' | 'end' | 'out-of-reach'
        self.value = value
        self.decisions = list(ctx.decisions)
        self.ghost = ctx.ghost
        self.notes = ctx.notes
        self.bounded = ctx.bounded
        self.ctx = ctx


class Engine:
    def __init__(self, repo, cfg):
        self.repo = repo
        self.cfg = cfg
        self.worklist = []
        self.obligations = {}
        self.stats = {'paths': 0, 'branch_checks': 0, 'reexec': 0}
        self._modconst = {}
        self._func_ids = {}

    def explore(self, run, max_paths=4000):
        """run(ctx) -> Val. Returns the list of PathResult."""
        self.worklist = [[]]
        results = []
        while self.worklist:
            decisions = self.worklist.pop()
            ctx = Ctx(self, decisions)
            self.stats['paths'] += 1
            if os.environ.get('PYVC_DEBUG') and self.stats['paths'] % 10 == 0:
                print('[pyvc]', self.stats, 'worklist', len(self.worklist), 'obligations', len(self.obligations), flush=True)
            if self.stats['paths'] > max_paths:
                raise OutOfReach(f'more than {max_paths} paths')
            try:
                val = run(ctx)
                results.append(PathResult(ctx, 'return', val))
            except PyRaise as e:
                results.append(PathResult(ctx, 'raise', e.exc))
            except PathEnd as e:
                if e.reason != 'infeasible':
                    results.append(PathResult(ctx, 'end', e.reason))
            except _Return as e:
                results.append(PathResult(ctx, 'return', e.val))
        return results

    def func_id(self, qual):
        if qual not in self._func_ids:
            self._func_ids[qual] = 2_000_000 + len(self._func_ids)
        return self._func_ids[qual]

    def func_by_id(self, fid):
        for q, i in self._func_ids.items():
            if i == fid:
                return q
        return None


class Ctx:
    def __init__(self, engine, decisions):
        self.engine = engine
        self.repo = engine.repo
        self.cfg = engine.cfg
        if isinstance(decisions, tuple):
            decisions, forced = decisions
        else:
            forced = [False] * len(decisions)
        self.forced = list(forced)
        self.real_forks = 0
        self.decisions = list(decisions)
        self.pos = 0
        self.pc = []
        self.solver = z3.Solver()
        # feasibility checks run under z3's deterministic resource limit, not a wall-clock timeout: which branches count as
        # "not refuted quickly" (and are then explored: sound) no longer depends on the load of the machine, and z3 5.1's
        # crashes on wall-clock cancellation inside incremental string/array solving are avoided. ~1.2e6 units ~ 1 s idle.
        self.solver.set('rlimit', int(os.environ.get('PYVC_BRANCH_RLIMIT_PER_MS', '1200')) * engine.cfg.branch_timeout_ms)
        self.heap = None
        self.counter = 0
        self.ob_counter = 0
        self.ghost = {}
        self.notes = []
        self.bounded = False
        self.closures = {}       # concrete fid -> Obj
        self.depth = 0
        self.quantified = 0
        self.owned = []          # refs (z3 Int terms) of containers allocated by the verified code that have not escaped

    # -- fresh symbols ---------------------------------------------------------------------
    def fresh(self, prefix, sort):
        self.counter += 1
        return z3.Const(f'{prefix}!{self.counter}', sort)

    def fresh_v(self, prefix='v'):
        return self.fresh(prefix, V)

    def fresh_heap(self, tag='h'):
        self.counter += 1
        return Heap.fresh(f'!{tag}{self.counter}')

    # -- assumptions, branching, obligations ---------------------------------------------------
    def assume(self, fact, _split=True):
        if _split:
            # split on the original structure (simplification rewrites implications into disjunctions)
            parts = split_fact(fact)
            if len(parts) > 1:
                for p in parts:
                    self.assume(p, _split=False)
                return
        fact = z3.simplify(fact)
        if is_t(fact):
            return
        self.pc.append(fact)
        # quantified facts are kept for the obligations but not given to the branch-feasibility solver: it mostly
        # answers "sat", the direction in which quantifiers make z3 give up; dropping them only over-approximates
        # feasibility (sound)
        if has_quantifier(fact):
            self.quantified += 1
            return
        self.solver.add(fact)

    def feasible(self, cond):
        import time as _t
        self.engine.stats['branch_checks'] += 1
        t0 = _t.time()
        self.solver.push()
        self.solver.add(cond)
        r = self.solver.check()
        self.solver.pop()
        self.engine.stats['branch_s'] = self.engine.stats.get('branch_s', 0.0) + (_t.time() - t0)
        if os.environ.get('PYVC_SLOW') and _t.time() - t0 > 0.5:
            print('[slow-branch]', round(_t.time() - t0, 2), r, ' '.join(str(cond).split())[:300], 'pc', len(self.pc), flush=True)
        if r == z3.unknown:
            self.engine.stats['branch_unknown'] = self.engine.stats.get('branch_unknown', 0) + 1
        return r != z3.unsat

    def must(self, cond):
        """True when cond is implied by the path condition (unknown counts as not implied)."""
        cond = z3.simplify(cond)
        if is_t(cond):
            return True
        if is_f(cond):
            return False
        self.engine.stats['branch_checks'] += 1
        self.solver.push()
        self.solver.add(z3.Not(cond))
        r = self.solver.check()
        self.solver.pop()
        return r == z3.unsat

    def branch(self, cond):
        if isinstance(cond, bool):
            return cond
        cond = z3.simplify(cond)
        if is_t(cond):
            return True
        if is_f(cond):
            return False
        k = self.pos
        if k < len(self.decisions):
            d = self.decisions[k]
            forced = self.forced[k] if k < len(self.forced) else False
        else:
            if has_quantifier(cond):
                # a quantified condition: the branch solver would only time out; both sides are explored
                t_ok = f_ok = True
            else:
                t_ok = self.feasible(cond)
                f_ok = self.feasible(z3.Not(cond))
            forced = True
            if t_ok and f_ok:
                self.engine.worklist.append((self.decisions[:k] + [False], self.forced[:k] + [False]))
                d = True
                forced = False
            elif t_ok:
                d = True
            elif f_ok:
                d = False
            else:
                raise PathEnd('infeasible')
            self.decisions.append(d)
            self.forced.append(forced)
        if not forced:
            self.real_forks += 1
        self.pos += 1
        self.assume(cond if d else z3.Not(cond))
        return d

    def choice(self, tag='choice'):
        """a free two-way choice (both sides are feasible by construction: no solver call)"""
        cond = self.fresh(tag, Bool)
        k = self.pos
        if k < len(self.decisions):
            d = self.decisions[k]
        else:
            self.engine.worklist.append((self.decisions[:k] + [False], self.forced[:k] + [False]))
            d = True
            self.decisions.append(d)
            self.forced.append(False)
        self.real_forks += 1
        self.pos += 1
        self.assume(cond if d else z3.Not(cond))
        return d

    def oblige(self, name, goal, **meta):
        """Record a proof obligation pc => goal, then assume it."""
        self.ob_counter += 1
        key = (tuple(self.decisions[:self.pos]), self.ob_counter, name)
        goal_s = z3.simplify(goal)
        if key not in self.engine.obligations:
            self.engine.obligations[key] = Obligation(name, list(self.pc), goal_s, meta, key)
        self.assume(goal_s)

    def note(self, text):
        self.notes.append(text)

    # -- value helpers ----------------------------------------------------------------------
    def to_term(self, val):
        """A V term for any value that can live in the heap."""
        if isinstance(val, S):
            return val.t
        if isinstance(val, C):
            t = conc_to_term(val.py)
            if t is not None:
                return t
            if isinstance(val.py, (list, tuple)):
                return self.alloc_list([self.wrap(x) for x in val.py])
            if isinstance(val.py, dict):
                return self.alloc_dict([(k, self.wrap(v)) for k, v in val.py.items()])
            raise OutOfReach(f'cannot lift concrete {type(val.py).__name__} to a value')
        if isinstance(val, B):
            return VBool(val.t)
        if isinstance(val, I):
            return VInt(val.t)
        if isinstance(val, R):
            return VFloat(val.t)
        if isinstance(val, T):
            return VStr(val.t)
        if isinstance(val, Obj):
            if val.kind == 'func':
                return VFunc(z3.IntVal(self.engine.func_id(val.f['qual'])))
            if val.kind in ('partial', 'closure', 'lambda'):
                if 'fid' not in val.f:
                    val.f['fid'] = 3_000_000 + len(self.closures)
                    self.closures[val.f['fid']] = val
                self.closures[val.f['fid']] = val
                return VFunc(z3.IntVal(val.f['fid']))
            if val.kind == 'tuple':
                return self.alloc_list(val.f['items'])
            if val.kind == 'regex':
                return VRegex(z3.IntVal(val.f.get('rid', 0)))
            if val.kind == 'nonfinite':
                return VOther(z3.IntVal(-98))      # inf / nan: a float outside the logic
        raise OutOfReach(f'cannot store {val!r} in the heap')

    def wrap(self, py):
        return py if isinstance(py, Val) else C(py)

    def alloc_list(self, items):
        els = z3.K(Int, VNone)
        for ix, item in enumerate(items):
            els = z3.Store(els, ix, self.stored(item))
        ref, self.heap = self.heap.new_list(z3.IntVal(len(items)), els)
        self.owned.append(('l', z3.simplify(ref)))
        return VList(ref)

    def alloc_dict(self, pairs):
        ref, self.heap = self.heap.new_dict_empty()
        for k, v in pairs:
            kt = k if z3.is_expr(k) else z3.StringVal(k)
            self.heap = self.heap.dset(ref, kt, self.stored(v))
        self.owned.append(('d', z3.simplify(ref)))
        return VDict(ref)

    def stored(self, val):
        """the term of a value that is being stored into the heap: the value escapes"""
        t = self.to_term(val)
        self.escape_term(t)
        return t

    def escape_term(self, t):
        if not self.owned:
            return
        t = z3.simplify(t)
        if z3.is_app(t) and t.decl().kind() == z3.Z3_OP_DT_CONSTRUCTOR and t.decl().name() in ('VList', 'VDict'):
            kind = 'l' if t.decl().name() == 'VList' else 'd'
            ref = z3.simplify(t.arg(0))
            self.owned = [o for o in self.owned if not (o[0] == kind and o[1].eq(ref))]
        # any other term is a value loaded from the heap, an input or a callee result: by the ownership argument
        # (an unescaped temporary is not stored anywhere and was allocated after every input) it cannot denote an
        # owned temporary

    def escape(self, val):
        if isinstance(val, (S,)):
            self.escape_term(val.t)
        elif isinstance(val, Obj) and val.kind == 'tuple':
            for x in val.f['items']:
                self.escape(x)

    def keep_owned(self, old, new):
        """new heap after a havoc: owned (unescaped) temporaries keep their contents"""
        if not self.owned:
            return new
        r = z3.Int('r!own')
        def cond(kind):
            alts = [(r == o[1]) if len(o) < 3 else z3.And(r == o[1], o[2]) for o in self.owned if o[0] == kind]
            return z3.Or(alts) if alts else z3.BoolVal(False)
        isl, isd = cond('l'), cond('d')

        def m(cond, o, n):
            return z3.Lambda([r], z3.If(cond, z3.Select(o, r), z3.Select(n, r)))
        return Heap(m(isl, old.LEN, new.LEN), m(isl, old.ELS, new.ELS), m(isd, old.HAS, new.HAS),
                    m(isd, old.VAL, new.VAL), m(isd, old.NK, new.NK), m(isd, old.KEY, new.KEY), new.alloc)

    def loaded(self, term):
        """A value just read from the heap: add its well-formedness instance."""
        self.assume(wf_value(self.heap, term))
        return S(term)

    def as_int(self, val, what='integer'):
        """z3 Int for a value used where Python needs an int (index, range bound, ...): TypeError otherwise."""
        if isinstance(val, C):
            if isinstance(val.py, bool) or isinstance(val.py, int):
                return z3.IntVal(int(val.py))
            raise PyRaise(make_exc('TypeError', [C(f'{what}: not an int')]))
        if isinstance(val, I):
            return val.t
        if isinstance(val, B):
            return z3.If(val.t, z3.IntVal(1), z3.IntVal(0))
        if isinstance(val, S):
            if self.branch(p_isinstance_int(val.t)):
                return z3.simplify(intval(val.t))
            raise PyRaise(make_exc('TypeError', [C(f'{what}: not an int')]))
        raise PyRaise(make_exc('TypeError', [C(f'{what}: not an int')]))

    def truthy(self, val):
        """Python truthiness: a python bool or a z3 Bool."""
        if isinstance(val, C):
            return bool(val.py)
        if isinstance(val, B):
            return val.t
        if isinstance(val, I):
            return val.t != 0
        if isinstance(val, R):
            return val.t != 0
        if isinstance(val, T):
            return z3.Length(val.t) != 0
        if isinstance(val, S):
            t = val.t
            h = self.heap
            return z3.simplify(z3.If(is_none(t), False,
                   z3.If(is_bool(t), V.b(t),
                   z3.If(is_int(t), V.i(t) != 0,
                   z3.If(is_float(t), V.r(t) != 0,
                   z3.If(is_str(t), z3.Length(V.s(t)) != 0,
                   z3.If(is_list(t), h.llen(V.lref(t)) != 0,
                   z3.If(is_dict(t), h.dnk(V.dref(t)) != 0, True))))))))
        if isinstance(val, Obj):
            if val.kind == 'tuple':
                return len(val.f['items']) != 0
            if val.kind == 'set':
                return len(val.f['items']) != 0
            return True
        raise OutOfReach(f'truthiness of {val!r}')

    def test(self, val):
        return self.branch(self.truthy(val))


# ---------------------------------------------------------------------------------------------
# Interpreter
# ---------------------------------------------------------------------------------------------

MAX_DEPTH = 12


class Interp:
    """Executes statements/expressions of one Ctx."""

    def __init__(self, ctx):
        self.ctx = ctx
        self.repo = ctx.repo
        from . import models
        self.models = models

    # -- names ------------------------------------------------------------------------------
    def lookup(self, frame, name):
        env = frame.env
        while env is not None:
            if name in env:
                return env[name]
            env = env.get('__parent__')
        return self.module_name(frame.module, name)

    def module_name(self, module, name):
        m = self.repo.modules[module]
        if name in m.functions:
            return Obj('func', qual=f'{module}.{name}')
        if name in m.classes:
            return Obj('class', module=module, name=name)
        if name in m.assigns:
            return self.module_const(module, name)
        if name in m.imports:
            imp = m.imports[name]
            if imp[0] == 'module':
                return Obj('module', name=imp[1])
            modname = imp[1].lstrip('.')
            if imp[1].startswith('.') and modname in self.repo.modules:
                return self.module_name(modname, imp[2])
            return Obj('ext', name=f'{modname}.{imp[2]}')
        if name in self.models.BUILTIN_NAMES:
            return Obj('builtin', name=name)
        if name in BUILTIN_EXC:
            return Obj('class', module=None, name=name)
        raise OutOfReach(f'unknown name {name} in {module}')

    def module_const(self, module, name):
        key = (module, name)
        cache = self.ctx.engine._modconst
        if key not in cache:
            node = self.repo.modules[module].assigns[name]
            cache[key] = ('busy',)
            frame = Frame(module, f'{module}.<module>', {'__parent__': None})
            val = self.models.eval_module_const(self, frame, name, node)
            if isinstance(val, C) and isinstance(val.py, dict):
                from .models_calls import TABLE_NAMES
                TABLE_NAMES[id(val.py)] = f'{module}.{name}'
            cache[key] = val
        val = cache[key]
        if isinstance(val, tuple) and val == ('busy',):
            raise OutOfReach(f'cyclic module constant {module}.{name}')
        return val

    # -- function execution -----------------------------------------------------------------
    def call_function(self, qual, args, kwargs=None):
        """Execute a repo function inline."""
        fn = self.repo.function(qual)
        module = qual.split('.')[0]
        env = self.bind_params(module, qual, fn, args, kwargs or {})
        env['__parent__'] = None
        frame = Frame(module, qual, env, fn)
        return self.run_body(frame, fn.body)

    def bind_params(self, module, qual, fn, args, kwargs, closure_env=None):
        a = fn.args
        if a.vararg or a.kwarg or a.kwonlyargs or a.posonlyargs:
            raise OutOfReach(f'{qual}: unsupported parameter kinds')
        params = [p.arg for p in a.args]
        if len(args) > len(params):
            raise PyRaise(make_exc('TypeError', [C('too many positional arguments')]))
        env = {}
        for p, v in zip(params, args):
            env[p] = v
        ndef = len(a.defaults)
        for ix, p in enumerate(params):
            if p in env:
                if p in kwargs:
                    raise PyRaise(make_exc('TypeError', [C('multiple values for argument')]))
                continue
            if p in kwargs:
                env[p] = kwargs[p]
                continue
            dix = ix - (len(params) - ndef)
            if dix >= 0:
                dframe = Frame(module, qual, {'__parent__': closure_env})
                env[p] = self.eval(dframe, a.defaults[dix])
            else:
                raise PyRaise(make_exc('TypeError', [C(f'missing argument {p}')]))
        for k in kwargs:
            if k not in params:
                raise PyRaise(make_exc('TypeError', [C(f'unexpected keyword argument {k}')]))
        return env

    def run_body(self, frame, body):
        self.ctx.depth += 1
        if self.ctx.depth > MAX_DEPTH:
            raise OutOfReach('inline call depth exceeded')
        try:
            self.exec_block(frame, body)
            return C(None)
        except _Return as r:
            return r.val
        finally:
            self.ctx.depth -= 1

    # -- statements -------------------------------------------------------------------------
    def exec_block(self, frame, stmts):
        for st in stmts:
            self.exec(frame, st)

    def exec(self, frame, st):
        m = getattr(self, 'st_' + type(st).__name__, None)
        if m is None:
            raise OutOfReach(f'statement {type(st).__name__} at {frame.qual}:{st.lineno}')
        hook = self.ctx.cfg.hooks.get('stmt')
        if hook is not None:
            hook(self, frame, st)
        return m(frame, st)

    def st_Pass(self, frame, st):
        pass

    def st_Expr(self, frame, st):
        if isinstance(st.value, ast.Constant):
            return
        self.eval(frame, st.value)

    def st_Return(self, frame, st):
        raise _Return(self.eval(frame, st.value) if st.value is not None else C(None))

    def st_Break(self, frame, st):
        raise _Break()

    def st_Continue(self, frame, st):
        raise _Continue()

    def st_FunctionDef(self, frame, st):
        frame.env[st.name] = Obj('closure', node=st, env=frame.env, module=frame.module, qual=f'{frame.qual}.{st.name}')

    def st_Assign(self, frame, st):
        val = self.eval(frame, st.value)
        for target in st.targets:
            self.assign(frame, target, val)

    def st_AugAssign(self, frame, st):
        op = st.op
        if isinstance(st.target, ast.Name):
            cur = self.lookup(frame, st.target.id)
            new = self.models.binop(self, type(op).__name__, cur, self.eval(frame, st.value))
            self.assign(frame, st.target, new)
        elif isinstance(st.target, ast.Subscript):
            obj = self.eval(frame, st.target.value)
            idx = self.eval_index(frame, st.target.slice)
            cur = self.models.subscript(self, obj, idx)
            new = self.models.binop(self, type(op).__name__, cur, self.eval(frame, st.value))
            self.models.store_subscript(self, obj, idx, new)
        else:
            raise OutOfReach('augmented assignment target')

    def assign(self, frame, target, val):
        if isinstance(target, ast.Name):
            frame.env[target.id] = val
        elif isinstance(target, (ast.Tuple, ast.List)):
            items = self.models.unpack(self, val, len(target.elts))
            for t, v in zip(target.elts, items):
                self.assign(frame, t, v)
        elif isinstance(target, ast.Subscript):
            obj = self.eval(frame, target.value)
            idx = self.eval_index(frame, target.slice)
            self.models.store_subscript(self, obj, idx, val)
        elif isinstance(target, ast.Attribute):
            obj = self.eval(frame, target.value)
            if isinstance(obj, Obj) and obj.kind == 'exc':
                obj.f['fields'][target.attr] = val
            else:
                raise OutOfReach(f'attribute store on {obj!r}')
        else:
            raise OutOfReach(f'assignment target {type(target).__name__}')

    def st_Delete(self, frame, st):
        for target in st.targets:
            if isinstance(target, ast.Subscript):
                obj = self.eval(frame, target.value)
                idx = self.eval_index(frame, target.slice)
                self.models.delete_subscript(self, obj, idx)
            else:
                raise OutOfReach('del of a non-subscript')

    def st_If(self, frame, st):
        if self.ctx.test(self.eval(frame, st.test)):
            self.exec_block(frame, st.body)
        else:
            self.exec_block(frame, st.orelse)

    def st_Raise(self, frame, st):
        if st.exc is None:
            if frame.cur_exc is None:
                raise OutOfReach('bare raise outside handler')
            raise PyRaise(frame.cur_exc)
        exc = self.eval(frame, st.exc)
        if isinstance(exc, Obj) and exc.kind == 'class':
            exc = self.instantiate(exc, [], {})
        if not (isinstance(exc, Obj) and exc.kind == 'exc'):
            raise OutOfReach(f'raise of {exc!r}')
        raise PyRaise(exc)

    def st_Try(self, frame, st):
        if st.finalbody:
            raise OutOfReach('try/finally')
        try:
            self.exec_block(frame, st.body)
        except PyRaise as e:
            exc = e.exc
            for handler in st.handlers:
                if self.exc_matches(frame, exc, handler.type):
                    if handler.name:
                        frame.env[handler.name] = exc
                    saved = frame.cur_exc
                    frame.cur_exc = exc
                    try:
                        self.exec_block(frame, handler.body)
                    finally:
                        frame.cur_exc = saved
                    return
            raise
        else:
            self.exec_block(frame, st.orelse)

    def exc_matches(self, frame, exc, type_node):
        if type_node is None:
            return True
        if isinstance(type_node, ast.Tuple):
            return any(self.exc_matches(frame, exc, t) for t in type_node.elts)
        cls = self.eval(frame, type_node)
        if not (isinstance(cls, Obj) and cls.kind == 'class'):
            raise OutOfReach(f'except clause type {cls!r}')
        return self.ctx.branch(self.exc_isinstance(exc, cls.f['name']))

    def class_bases(self, name):
        """The chain of base class names of an exception class."""
        chain = [name]
        cur = name
        while True:
            if cur in BUILTIN_EXC:
                cur = BUILTIN_EXC[cur]
            else:
                found = None
                for m in self.repo.modules.values():
                    if cur in m.classes:
                        bases = m.classes[cur].bases
                        if bases and isinstance(bases[0], ast.Name):
                            found = bases[0].id
                        elif bases and isinstance(bases[0], ast.Attribute):
                            found = bases[0].attr
                        break
                cur = found
            if cur is None:
                return chain
            chain.append(cur)

    def exc_isinstance(self, exc, clsname):
        """python bool or z3 Bool: is the exception an instance of clsname"""
        cls = exc.f['cls']
        if cls is not None and not isinstance(cls, tuple):
            return clsname in self.class_bases(cls)
        # an exception of unknown class, constrained to be a subclass of `upper`
        upper = cls[1] if isinstance(cls, tuple) else 'BaseException'
        if clsname in self.class_bases(upper):
            return True
        tests = exc.f['tests']
        if clsname not in tests:
            tests[clsname] = self.ctx.fresh(f'isexc_{clsname}', Bool)
            # consistency with earlier tests: subclass implies superclass
            for other, b in tests.items():
                if other == clsname:
                    continue
                if clsname in self.class_bases(other):
                    self.ctx.assume(z3.Implies(b, tests[clsname]))
                elif other in self.class_bases(clsname):
                    self.ctx.assume(z3.Implies(tests[clsname], b))
                elif upper not in ('BaseException', 'Exception'):
                    pass
        return tests[clsname]

    # -- loops ------------------------------------------------------------------------------
    def loop_ordinal(self, frame, st):
        if frame.fn_node is None:
            return None
        for ix, node in enumerate(loops_of(frame.fn_node)):
            if node is st:
                return ix
        return None

    def st_While(self, frame, st):
        spec = self.ctx.cfg.loop_specs.get((frame.qual, self.loop_ordinal(frame, st)))
        if spec is not None:
            return self.models.inductive_loop(self, frame, st, spec, None)
        # concrete / bounded unrolling
        count = 0
        while True:
            cond = self.ctx.truthy(self.eval(frame, st.test))
            if isinstance(cond, bool) or is_t(z3.simplify(cond)) or is_f(z3.simplify(cond)):
                go = cond if isinstance(cond, bool) else is_t(z3.simplify(cond))
            else:
                if count >= self.ctx.cfg.unroll:
                    if self.ctx.cfg.unroll == 0:
                        raise OutOfReach(f'while loop without invariant at {frame.qual}:{st.lineno}')
                    if self.ctx.branch(cond):
                        self.ctx.bounded = True
                        raise PathEnd('bounded-cut')
                    go = False
                else:
                    go = self.ctx.branch(cond)
                    count += 1
            if not go:
                self.exec_block(frame, st.orelse)
                return
            try:
                self.exec_block(frame, st.body)
            except _Break:
                return
            except _Continue:
                pass

    def st_For(self, frame, st):
        it = self.eval(frame, st.iter)
        spec = self.ctx.cfg.loop_specs.get((frame.qual, self.loop_ordinal(frame, st)))
        seq = self.models.iteration(self, it)
        if seq[0] == 'concrete':
            for item in seq[1]:
                self.assign(frame, st.target, item)
                try:
                    self.exec_block(frame, st.body)
                except _Break:
                    return
                except _Continue:
                    pass
            self.exec_block(frame, st.orelse)
            return
        # symbolic iteration: seq = ('symbolic', length_fn(heap)->Int term, elem_fn(heap, k)->Val)
        if spec is not None:
            return self.models.inductive_loop(self, frame, st, spec, seq)
        if self.ctx.cfg.unroll == 0:
            raise OutOfReach(f'for loop without invariant at {frame.qual}:{st.lineno}')
        k = 0
        while True:
            more = z3.IntVal(k) < seq[1](self.ctx.heap)
            if k >= self.ctx.cfg.unroll:
                if self.ctx.branch(more):
                    self.ctx.bounded = True
                    raise PathEnd('bounded-cut')
                break
            if not self.ctx.branch(more):
                break
            self.assign(frame, st.target, seq[2](self.ctx.heap, z3.IntVal(k)))
            try:
                self.exec_block(frame, st.body)
            except _Break:
                return
            except _Continue:
                pass
            k += 1
        self.exec_block(frame, st.orelse)

    # -- expressions ------------------------------------------------------------------------
    def eval(self, frame, node):
        m = getattr(self, 'ex_' + type(node).__name__, None)
        if m is None:
            raise OutOfReach(f'expression {type(node).__name__} at {frame.qual}:{getattr(node, "lineno", "?")}')
        return m(frame, node)

    def eval_index(self, frame, node):
        if isinstance(node, ast.Slice):
            return Obj('slice',
                       lower=self.eval(frame, node.lower) if node.lower is not None else None,
                       upper=self.eval(frame, node.upper) if node.upper is not None else None,
                       step=self.eval(frame, node.step) if node.step is not None else None)
        return self.eval(frame, node)

    def ex_Constant(self, frame, node):
        return C(node.value)

    def ex_Name(self, frame, node):
        return self.lookup(frame, node.id)

    def ex_Tuple(self, frame, node):
        return Obj('tuple', items=[self.eval(frame, e) for e in node.elts])

    def ex_List(self, frame, node):
        items = []
        for e in node.elts:
            if isinstance(e, ast.Starred):
                items.extend(self.models.concrete_items(self, self.eval(frame, e.value)))
            else:
                items.append(self.eval(frame, e))
        if any(isinstance(x, Obj) and x.kind == 'spread' for x in items):
            # [*a, x, *b] with lists of symbolic length: a new list built by extend/append in display order
            # (CPython: BUILD_LIST, LIST_EXTEND / LIST_APPEND per element)
            from .models_calls import list_method
            lst = S(self.ctx.alloc_list([]))
            for x in items:
                if isinstance(x, Obj) and x.kind == 'spread':
                    list_method(self, lst, 'extend', [x.f['value']], {})
                else:
                    list_method(self, lst, 'append', [x], {})
            return lst
        return S(self.ctx.alloc_list(items))

    def ex_Set(self, frame, node):
        return Obj('set', items=[self.eval(frame, e) for e in node.elts])

    def ex_Dict(self, frame, node):
        if any(k is None for k in node.keys):
            return self.models.dict_merge(self, [self.eval(frame, v) for v in node.values])
        pairs = []
        for k, v in zip(node.keys, node.values):
            kv = self.eval(frame, k)
            pairs.append((self.models.key_term(self, kv), self.eval(frame, v)))
        return S(self.ctx.alloc_dict(pairs))

    def ex_IfExp(self, frame, node):
        if self.ctx.test(self.eval(frame, node.test)):
            return self.eval(frame, node.body)
        return self.eval(frame, node.orelse)

    def ex_BoolOp(self, frame, node):
        is_and = isinstance(node.op, ast.And)
        val = None
        for ix, sub in enumerate(node.values):
            val = self.eval(frame, sub)
            if ix == len(node.values) - 1:
                return val
            t = self.ctx.test(val)
            if is_and and not t:
                return val
            if not is_and and t:
                return val
        return val

    def ex_UnaryOp(self, frame, node):
        val = self.eval(frame, node.operand)
        if isinstance(node.op, ast.Not):
            t = self.ctx.truthy(val)
            return C(not t) if isinstance(t, bool) else B(z3.simplify(z3.Not(t)))
        if isinstance(node.op, ast.USub):
            return self.models.binop(self, 'Sub', C(0), val)
        raise OutOfReach('unary operator')

    def ex_BinOp(self, frame, node):
        left = self.eval(frame, node.left)
        right = self.eval(frame, node.right)
        return self.models.binop(self, type(node.op).__name__, left, right)

    def ex_Compare(self, frame, node):
        left = self.eval(frame, node.left)
        result = None
        for op, rnode in zip(node.ops, node.comparators):
            right = self.eval(frame, rnode)
            r = self.models.compare(self, type(op).__name__, left, right)
            if len(node.ops) == 1:
                return r
            if not self.ctx.test(r):
                return r
            result = r
            left = right
        return result

    def ex_Subscript(self, frame, node):
        obj = self.eval(frame, node.value)
        idx = self.eval_index(frame, node.slice)
        return self.models.subscript(self, obj, idx)

    def ex_Attribute(self, frame, node):
        obj = self.eval(frame, node.value)
        return self.models.getattr(self, obj, node.attr)

    def ex_JoinedStr(self, frame, node):
        return self.models.fstring(self, frame, node)

    def ex_Lambda(self, frame, node):
        return Obj('lambda', node=node, env=frame.env, module=frame.module, qual=f'{frame.qual}.<lambda>')

    def ex_ListComp(self, frame, node):
        return self.models.comprehension(self, frame, node, 'list')

    def ex_GeneratorExp(self, frame, node):
        return Obj('genexp', node=node, frame=frame)

    def ex_Call(self, frame, node):
        hook = self.ctx.cfg.hooks.get('call')
        if hook is not None:
            r = hook(self, frame, node)
            if r is not None:
                return r
        callee = self.eval(frame, node.func)
        args = []
        for a in node.args:
            if isinstance(a, ast.Starred):
                args.extend(self.models.concrete_items(self, self.eval(frame, a.value)))
            else:
                args.append(self.eval(frame, a))
        kwargs = {}
        for kw in node.keywords:
            if kw.arg is None:
                raise OutOfReach('**kwargs call')
            kwargs[kw.arg] = self.eval(frame, kw.value)
        return self.call(callee, args, kwargs, frame=frame, node=node)

    # -- calls ------------------------------------------------------------------------------
    def call(self, callee, args, kwargs=None, frame=None, node=None):
        kwargs = kwargs or {}
        if isinstance(callee, Obj):
            k = callee.kind
            if k == 'func':
                qual = callee.f['qual']
                cfg = self.ctx.cfg
                if qual in cfg.inline:
                    return self.call_function(qual, args, kwargs)
                if qual in cfg.contracts:
                    return self.models.apply_contract(self, cfg.contracts[qual], args, kwargs)
                raise OutOfReach(f'call of {qual}: no contract and not inlined')
            if k == 'builtin':
                return self.models.call_builtin(self, callee.f['name'], args, kwargs, frame)
            if k == 'ext':
                return self.models.call_ext(self, callee.f['name'], args, kwargs, frame)
            if k == 'modattr':
                return self.models.call_modattr(self, callee.f['name'], args, kwargs, frame)
            if k == 'bound':
                return self.models.call_method(self, callee.f['self'], callee.f['name'], args, kwargs, frame)
            if k == 'class':
                return self.instantiate(callee, args, kwargs)
            if k == 'partial':
                return self.call(callee.f['fn'], list(callee.f['args']) + list(args), kwargs, frame, node)
            if k in ('closure', 'lambda'):
                fn = callee.f['node']
                env = self.bind_params(callee.f['module'], callee.f['qual'], fn, args, kwargs, callee.f['env'])
                env['__parent__'] = callee.f['env']
                fr = Frame(callee.f['module'], callee.f['qual'], env, fn if k == 'closure' else None)
                if k == 'lambda':
                    return self.eval(fr, fn.body)
                return self.run_body(fr, fn.body)
        if isinstance(callee, S):
            return self.models.call_value(self, callee, args, kwargs, frame, node)
        if isinstance(callee, C) and callee.py is None:
            raise PyRaise(make_exc('TypeError', [C("'NoneType' object is not callable")]))
        raise OutOfReach(f'call of {callee!r}')

    def instantiate(self, cls, args, kwargs):
        name = cls.f['name']
        module = cls.f['module']
        if module is None:
            return make_exc(name, args)
        exc = make_exc(name, args)
        model = self.ctx.cfg.hooks.get('class:' + name)
        if model is not None:
            model(self, exc, args, kwargs)
            return exc
        cnode = self.repo.modules[module].classes[name]
        init = None
        for n in cnode.body:
            if isinstance(n, ast.FunctionDef) and n.name == '__init__':
                init = n
        if init is not None:
            qual = f'{module}.{name}.__init__'
            env = self.bind_params(module, qual, init, [exc] + list(args), kwargs)
            env['__parent__'] = None
            env['__class__'] = cls
            frame = Frame(module, qual, env, init)
            self.run_body(frame, init.body)
        return exc
