"""C15 — array, object and string functions obey their sequence/map/string contracts."""
from pyvc.report import PropertyRun
from contracts.lib_array import LIB as ARRAY_OBJECT
from contracts.lib_string import LIB as STRING
from contracts.lib_cmp import LIB as CMPLIB
from .common import run_contracts


def run(tier):
    pr = PropertyRun('C15', tier)
    extra = [c for c in CMPLIB if c.script_name in ('arrayIndexOf', 'arrayLastIndexOf', 'arraySort', 'objectNew')]
    run_contracts(pr, ARRAY_OBJECT + STRING + extra, tier)
    # the match-function form of arrayIndexOf/arrayLastIndexOf (a second contract on the same functions, under the
    # complementary precondition)
    from contracts.lib_cmp import INDEX_OF_MATCH
    run_contracts(pr, INDEX_OF_MATCH, tier)
    pr.assumptions += [
        'str.find/rfind/lower/upper/strip/replace/split, re.escape and urllib.parse.quote are uninterpreted functions shared by code model and specification: the proof covers argument validation, int() conversion, bounds and failure values, not those built-ins',
        'regexEscape(s) matches exactly s and URL encoding is reversible: assumed contracts of re.escape / urllib.parse.quote',
        'the argument list passed to a library function is a fresh temporary not reachable from any script value (true of the call site in evaluate_expression)',
        'arrayIndexOf/arrayLastIndexOf: the value form and the match-function form are two contracts under complementary preconditions; in the match-function form the callback is an arbitrary host function (may change any script-reachable container, may raise), its verdict per visited element is a ghost, and a failure after the first callback is attributed to the callbacks (they may shrink the array under the scan)',
        'arraySort is covered for the default order (assumed list.sort contract: an in-place permutation); arrayJoin and stringFromCharCode are not under contract',
        'each contract quantifies over an arbitrary pre-heap with arbitrary aliasing, so any history of calls is covered by sequential composition',
    ]
    return pr
