"""C15 — array, object and string functions obey their sequence/map/string contracts."""
from pyvc.report import PropertyRun
from contracts.lib_array import LIB as ARRAY_OBJECT
from contracts.lib_string import LIB as STRING
from contracts.lib_cmp import LIB as CMPLIB
from .common import run_contracts


def run(tier):
    pr = PropertyRun('C15', tier)
    extra = [c for c in CMPLIB if c.script_name in ('arrayIndexOf', 'arrayLastIndexOf', 'arraySort', 'objectNew')]
    run_contracts(pr, ARRAY_OBJECT + STRING + extra, tier)
    pr.assumptions += [
        'str.find/rfind/lower/upper/strip/replace/split, re.escape and urllib.parse.quote are uninterpreted functions shared by code model and specification: the proof covers argument validation, int() conversion, bounds and failure values, not those built-ins',
        'regexEscape(s) matches exactly s and URL encoding is reversible: assumed contracts of re.escape / urllib.parse.quote',
        'the argument list passed to a library function is a fresh temporary not reachable from any script value (true of the call site in evaluate_expression)',
        'arrayIndexOf/arrayLastIndexOf are covered for a value argument (not a match function), arraySort for the default order (assumed list.sort contract: an in-place permutation); arrayJoin and stringFromCharCode are not under contract',
        'each contract quantifies over an arbitrary pre-heap with arbitrary aliasing, so any history of calls is covered by sequential composition',
    ]
    return pr
