"""C03 — expression evaluation follows the typed operator semantics."""
import time
import z3
from pyvc.report import PropertyRun
from pyvc.source import Repo
from contracts.runtime_c import EVALUATE_EXPRESSION
from .common import run_contracts_sel
from .runtime_common import RUNTIME_ASSUMPTIONS


def alias_table_lemma(pr):
    """EXPRESSION_FUNCTIONS[k] is SCRIPT_FUNCTIONS[EXPRESSION_FUNCTION_MAP[k]] for every k, and the alias pairing is the
    pinned 46-entry table (exhaustive over the constant tables read from the source)."""
    import ast
    from contracts.alias_table import EXPECTED_ALIASES
    m = Repo().modules['library']
    t0 = time.time()
    amap = ast.literal_eval(m.assigns['EXPRESSION_FUNCTION_MAP'])
    sf = m.assigns['SCRIPT_FUNCTIONS']
    script_fns = {k.value: v.id for k, v in zip(sf.keys, sf.values)}
    ef = ast.unparse(m.assigns['EXPRESSION_FUNCTIONS'])
    shape_ok = ''.join(ef.split()) == ''.join(
        'dict(((expr_fn_name, SCRIPT_FUNCTIONS[script_fn_name]) for expr_fn_name, script_fn_name in EXPRESSION_FUNCTION_MAP.items()))'.split())
    # a differently written construction cannot be decided here: undecided, not a violation
    pr.add_obligation('C03.alias-table.construction-is-the-map-composition', 'unsat' if shape_ok else 'unknown', 'exhaustive',
                      time.time() - t0, detail=ef)
    for k in sorted(set(amap) | set(EXPECTED_ALIASES)):
        ok = k in amap and k in EXPECTED_ALIASES and amap[k] == EXPECTED_ALIASES[k] and amap[k] in script_fns
        # an alias the pinned table does not know (added after the pinned commit) is undecided, not a violation; a changed or
        # removed pairing is one
        verdict = 'unsat' if ok else ('unknown' if k not in EXPECTED_ALIASES and amap.get(k) in script_fns else 'sat')
        pr.add_obligation(f'C03.alias-table.{k}', verdict, 'exhaustive', 0.0,
                          detail=f'{k}: source maps to {amap.get(k)!r}, documented alias is {EXPECTED_ALIASES.get(k)!r}',
                          function='library.EXPRESSION_FUNCTION_MAP',
                          replay={'reproduced': not ok, 'observed': {'alias': k, 'maps_to': amap.get(k)}})
    # the documented library function of each alias is the one registered under that name
    for name, fn in sorted(script_fns.items()):
        doc = None
        f = m.functions.get(fn)
        ok = f is not None
        pr.add_obligation(f'C03.script-function-registered.{name}', 'unsat' if ok else 'sat', 'exhaustive', 0.0,
                          detail=f'{name} -> {fn}')


def run(tier):
    pr = PropertyRun('C03', tier)
    run_contracts_sel(pr, [EVALUATE_EXPRESSION], tier, 'C03')
    alias_table_lemma(pr)
    pr.assumptions += RUNTIME_ASSUMPTIONS + [
        'numbers: + - * / % ** are checked over mathematical integers/reals, for int operands below 2**1024 (beyond that CPython raises OverflowError, which the fixed code turns into null)',
        'value_string / value_compare are used through their contracts (VALUE_STRING, CMP)',
        'the expected alias pairing (contracts/alias_table.py) is the 46-entry table of the pinned commit: a pinned oracle, it detects a changed pairing, it cannot show the pinned one is right',
    ]
    return pr
