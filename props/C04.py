"""C04 — scoping, calling convention and host globals."""
from pyvc.report import PropertyRun
from .common import run_contracts_sel
from .runtime_common import RUNTIME, RUNTIME_ASSUMPTIONS


def run(tier):
    pr = PropertyRun('C04', tier)
    run_contracts_sel(pr, RUNTIME, tier, 'C04')
    # the include arm of the statement loop is not proved: bounded native stand-in (includes run in the global scope, in order)
    from .C17 import include_bounded
    include_bounded(pr, 'C04')
    pr.assumptions += RUNTIME_ASSUMPTIONS + [
        'SCRIPT_FUNCTIONS / EXPRESSION_FUNCTIONS are treated as uninterpreted maps name -> function (their contents are checked by the C03 table lemma)',
    ]
    return pr
