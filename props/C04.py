"""C04 — scoping, calling convention and host globals."""
from pyvc.report import PropertyRun
from .common import run_contracts_sel
from .runtime_common import RUNTIME, RUNTIME_ASSUMPTIONS


def run(tier):
    pr = PropertyRun('C04', tier)
    run_contracts_sel(pr, RUNTIME, tier, 'C04')
    # the call path through systemPartial: the returned function is run symbolically in the post-state
    from contracts.lib_cmp import SYSTEM_PARTIAL
    run_contracts_sel(pr, [SYSTEM_PARTIAL], tier, 'C04')
    # the include arm of the statement loop is not proved: bounded native stand-in (includes run in the global scope, in order)
    from .C17 import include_bounded
    include_bounded(pr, 'C04')
    pr.assumptions += RUNTIME_ASSUMPTIONS + [
        'systemPartial: one symbolic call of the returned function stands for every call (the captured argument list never escapes, so it is the same at every call: ownership of unescaped temporaries); the target is an arbitrary host function',
        'SCRIPT_FUNCTIONS / EXPRESSION_FUNCTIONS are treated as uninterpreted maps name -> function (their contents are checked by the C03 table lemma)',
    ]
    return pr
