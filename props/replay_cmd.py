"""./check <ID> --replay <file>: re-runs the recorded concrete input natively and re-evaluates the contract."""
import json
from pyvc.replay import replay


def find_contract(qual):
    from contracts import registry
    return registry.all_contracts().get(qual)


def replay_file(path):
    doc = json.load(open(path, 'r', encoding='utf-8'))
    c = find_contract(doc['function'])
    if c is None or not doc.get('concrete_inputs'):
        print(json.dumps({'replayable': False, 'obligation': doc['obligation'], 'solver_output': doc.get('solver_output')}, indent=1))
        return 0
    if not isinstance(doc['concrete_inputs'], dict) or 'args' not in doc['concrete_inputs']:
        # the violation was demonstrated by a native witness program or a text-level replay (regex-language obligations,
        # bounded stand-ins): the recorded observation is shown; running the property's check again re-executes the program
        print(json.dumps({'replayable': 'by re-running the check', 'obligation': doc['obligation'], 'input': doc['concrete_inputs'],
                          'recorded_observation': doc.get('replay')}, indent=1, default=str))
        return 1 if (doc.get('replay') or {}).get('reproduced') else 0
    r = replay(c, doc['concrete_inputs'])
    print(json.dumps(r, indent=1, default=str))
    return 1 if r.get('reproduced') else 0
