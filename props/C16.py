"""C16 — datetime construction, arithmetic and ISO text."""
from pyvc.report import PropertyRun
from contracts.lib_datetime import LIB as DTLIB, DATETIME_NEW
from contracts.value_c import VALUE_PARSE_DATETIME
from contracts.runtime_c import EVALUATE_EXPRESSION
from .common import run_contracts, run_contracts_sel
from .runtime_common import RUNTIME_ASSUMPTIONS


def run(tier):
    pr = PropertyRun('C16', tier, level='other')
    getters = [c for c in DTLIB if c is not DATETIME_NEW]
    run_contracts(pr, getters + [VALUE_PARSE_DATETIME], tier)
    # datetime +/- operators: the '+' and '-' cases of evaluate_expression (C03 step obligations cover the datetime arms)
    run_contracts_sel(pr, [EVALUATE_EXPRESSION], tier, 'C16', extra=('C03',))
    # bounded stand-in for datetimeNew in both tiers (never counted as proved): a native sweep against calendar arithmetic
    import os
    from pyvc.replay import run_witness
    here = os.path.dirname(os.path.dirname(os.path.abspath(__file__)))
    with open(os.path.join(here, 'native', 'witness', 'datetime_new_witness.py'), encoding='utf-8') as fh:
        res = run_witness(fh.read(), timeout=300)
    pr.bounded.append(f'library._datetime_new: bounded native sweep, {res.get("checked")} argument tuples in both number spellings (months '
                      '-30..40, days -800..800 around month/leap-year edges, carry chains of hour/minute/second/millisecond) against '
                      'calendar arithmetic written from the property statement')
    if res.get('violates'):
        pr.failures.append({'obligation': 'C16.bounded.datetimeNew-equals-calendar-arithmetic', 'function': 'library._datetime_new', 'path': '',
                            'inputs': res['counterexamples'][0], 'replay': {'reproduced': True, 'observed': res['counterexamples']},
                            'solver': {'backend': 'native-bounded', 'verdict': 'counterexample', 'output': ''}})
    elif 'error' in res:
        pr.errors.append('datetimeNew witness failed to run: ' + str(res['error'])[-300:])
    # the ISO round trip rests on assumed contracts of datetime (astimezone/isoformat/fromisoformat): bounded native stand-in
    # over eight process time zones (DST zones with whole-hour and half-hour shifts, fixed-offset zones)
    with open(os.path.join(here, 'native', 'witness', 'iso_roundtrip_witness.py'), encoding='utf-8') as fh:
        res = run_witness(fh.read(), timeout=300)
    pr.bounded.append(f'ISO text round trip: bounded native check, {res.get("checked")} datetimes (three years x four months x three times '
                      f'of day) in {len(res.get("zones") or [])} process time zones: datetimeISOParse(datetimeISOFormat(d)) == d')
    if res.get('violates'):
        pr.failures.append({'obligation': 'C16.bounded.iso-text-round-trip', 'function': 'value.value_string', 'path': '',
                            'inputs': res['counterexamples'][0], 'replay': {'reproduced': True, 'observed': res['counterexamples']},
                            'solver': {'backend': 'native-bounded', 'verdict': 'counterexample', 'output': ''}})
    elif 'error' in res:
        pr.errors.append('ISO round-trip witness failed to run: ' + str(res['error'])[-300:])
    if os.environ.get('PYVC_EXPERIMENTAL_CASES'):
        run_contracts(pr, [DATETIME_NEW], tier)
    else:
        pr.not_proved.append('library._datetime_new: NOT proved — the roll-over proof (carry chain + two inductive day loops against the '
                             'abstract calendar DAYNUM/DIM, contracts in contracts/lib_datetime.py) explores several thousand paths (7 '
                             'arguments x int/float spellings x 5 optional carries) and did not finish within 45 minutes and 10 GB; it is '
                             'outside both registered tiers (PYVC_EXPERIMENTAL_CASES=1 runs it) and the bounded native sweep stands in')
    pr.explanation = ('Proved: the component getters return the fields of the normalised instant; value_parse_datetime returns null '
                      'or a naive datetime and never raises (after the fix); datetime + number and datetime - datetime follow the '
                      'millisecond arithmetic of the statement incl. out-of-range results yielding null. datetimeNew: bounded native '
                      'sweep against calendar arithmetic (its symbolic proof is written but does not finish: not proved). Assumed: ISO text round trip and time-zone behaviour (astimezone/isoformat) — a bounded native check over eight time zones stands in.')
    pr.assumptions += RUNTIME_ASSUMPTIONS + [
        'the civil calendar is abstract: DATE_* field functions, DIM(y, m) in 28..31 and DAYNUM with DAYNUM(next month) = DAYNUM + DIM (assumed contract of datetime/calendar.monthrange)',
        'astimezone() reads naive values as local time; aware.replace(tzinfo=None) is the wall clock in the value\'s own zone; U2L(x) = x + LOCOFF(x) with an uninterpreted process-zone offset: "whatever the zone is" is covered in the sense that nothing about LOCOFF is assumed, but the ISO round trip itself (isoformat/fromisoformat inverse) is an assumed contract',
        'timedelta(milliseconds=x) is exact for integral 1000x, round-half-even otherwise',
    ]
    return pr
