"""C16 — datetime construction, arithmetic and ISO text."""
from pyvc.report import PropertyRun
from contracts.lib_datetime import LIB as DTLIB, DATETIME_NEW
from contracts.value_c import VALUE_PARSE_DATETIME
from contracts.runtime_c import EVALUATE_EXPRESSION
from .common import run_contracts, run_contracts_sel
from .runtime_common import RUNTIME_ASSUMPTIONS


def run(tier):
    pr = PropertyRun('C16', tier, level='other')
    getters = [c for c in DTLIB if c is not DATETIME_NEW]
    run_contracts(pr, getters + [VALUE_PARSE_DATETIME], tier)
    # datetime +/- operators: the '+' and '-' cases of evaluate_expression (C03 step obligations cover the datetime arms)
    run_contracts_sel(pr, [EVALUATE_EXPRESSION], tier, 'C16', extra=('C03',))
    if tier == 'thorough':
        run_contracts(pr, [DATETIME_NEW], tier)
    else:
        pr.not_proved.append('library._datetime_new: the roll-over proof (carry chain + two inductive day loops against the abstract '
                             'calendar DAYNUM/DIM) explores several thousand paths and runs in the thorough tier only')
    pr.explanation = ('Proved: the component getters return the fields of the normalised instant; value_parse_datetime returns null '
                      'or a naive datetime and never raises (after the fix); datetime + number and datetime - datetime follow the '
                      'millisecond arithmetic of the statement incl. out-of-range results yielding null. Thorough tier: datetimeNew '
                      'against calendar arithmetic. Assumed: ISO text round trip and time-zone behaviour (astimezone/isoformat).')
    pr.assumptions += RUNTIME_ASSUMPTIONS + [
        'the civil calendar is abstract: DATE_* field functions, DIM(y, m) in 28..31 and DAYNUM with DAYNUM(next month) = DAYNUM + DIM (assumed contract of datetime/calendar.monthrange)',
        'astimezone() reads naive values as local time; aware.replace(tzinfo=None) is the wall clock in the value\'s own zone; U2L(x) = x + LOCOFF(x) with an uninterpreted process-zone offset: "whatever the zone is" is covered in the sense that nothing about LOCOFF is assumed, but the ISO round trip itself (isoformat/fromisoformat inverse) is an assumed contract',
        'timedelta(milliseconds=x) is exact for integral 1000x, round-half-even otherwise',
    ]
    return pr
