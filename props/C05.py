"""C05 — runtime errors are contained: only documented exceptions escape."""
from pyvc.report import PropertyRun
from .common import run_contracts_sel
from .runtime_common import RUNTIME, RUNTIME_ASSUMPTIONS
from contracts.value_c import VALUE_COMPARE


def run(tier):
    pr = PropertyRun('C05', tier)
    run_contracts_sel(pr, RUNTIME + [VALUE_COMPARE], tier, 'C05')
    pr.assumptions += RUNTIME_ASSUMPTIONS + [
        'may-raise models of CPython operators are necessary conditions (over-approximate): ZeroDivisionError iff divisor 0; OverflowError for int->float coercion iff |i| >= 2**1024-2**970, may for float ** and huge int /; timedelta/datetime range OverflowError; TypeError/IndexError/KeyError exactly as CPython for the value kinds of the logic',
        'library functions are covered through the call wrapper: any Exception subclass they raise becomes null / the failure value (their own exception sets are proved in C15)',
    ]
    return pr
