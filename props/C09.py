"""C09 — the statement budget is exact, complete and monotone."""
from pyvc.report import PropertyRun
from .common import run_contracts_sel
from .runtime_common import RUNTIME, RUNTIME_ASSUMPTIONS


def run(tier):
    pr = PropertyRun('C09', tier)
    run_contracts_sel(pr, RUNTIME, tier, 'C09')
    from .C17 import include_bounded
    include_bounded(pr, 'C09')
    pr.assumptions += RUNTIME_ASSUMPTIONS + [
        'exactness over whole runs follows from the step obligations (increment once at the head of every statement, limit test immediately after, counter reset only at execute_script entry, every nested run counted in the same counter) by induction over the execution (trusted meta-theorem)',
    ]
    return pr
