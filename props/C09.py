"""C09 — the statement budget is exact, complete and monotone."""
from pyvc.report import PropertyRun
from .common import run_contracts_sel
from .runtime_common import RUNTIME, RUNTIME_ASSUMPTIONS


def run(tier):
    pr = PropertyRun('C09', tier)
    run_contracts_sel(pr, RUNTIME, tier, 'C09')
    # evaluation sites outside the runtime: the data helpers (an expression per row) and arraySort's comparison callbacks
    from contracts.data_c import FILTER_DATA, ADD_CALCULATED_FIELD
    from contracts.lib_cmp import ARRAY_SORT_CUSTOM
    run_contracts_sel(pr, [FILTER_DATA, ADD_CALCULATED_FIELD], tier, 'C09')
    run_contracts_sel(pr, [ARRAY_SORT_CUSTOM], tier, 'C09')
    # arrayIndexOf/arrayLastIndexOf match functions: called with the caller's options (so their statements are counted)
    from contracts.lib_cmp import INDEX_OF_MATCH
    run_contracts_sel(pr, INDEX_OF_MATCH, tier, 'C09')
    pr.not_proved.append('data.join_data, data.aggregate_data: evaluation sites not under contract (join_data evaluates the join '
                         'expressions per row; the carried-back count was repaired in 0dca9b5 but is not proved here)')
    from .C17 import include_bounded
    include_bounded(pr, 'C09')
    pr.assumptions += RUNTIME_ASSUMPTIONS + [
        'exactness over whole runs follows from the step obligations (increment once at the head of every statement, limit test immediately after, counter reset only at execute_script entry, every nested run counted in the same counter) by induction over the execution (trusted meta-theorem)',
    ]
    return pr
