"""C11 — value comparison is a total preorder and every consumer agrees with it."""
from pyvc.report import PropertyRun
from contracts.value_c import VALUE_COMPARE
from contracts.lib_cmp import LIB as CMPLIB
from contracts.cmp_lemmas import discharge_all
from contracts.runtime_c import EVALUATE_EXPRESSION
from .common import run_contracts, run_contracts_sel
from .runtime_common import RUNTIME_ASSUMPTIONS


def run(tier):
    pr = PropertyRun('C11', tier)
    # the code is the specification function CMP
    run_contracts(pr, [VALUE_COMPARE], tier)
    # CMP is a total preorder (lemma layer, hand-applied induction)
    for name, verdict, backend, secs, detail in discharge_all(60000 if tier == 'thorough' else 10000):
        if name.startswith('MUST-FAIL'):
            if verdict != 'sat':
                pr.errors.append(f'vacuity guard: {name} was not refuted ({verdict}) — the lemma harness is unsound')
            continue
        pr.add_obligation('C11.' + name, verdict, backend, secs, detail=detail)
    # the logic treats ints and floats as mathematical numbers: a bounded native sweep of value_compare over a grid that
    # includes machine-number edges (integers around 2**53 against floats, infinities, an int beyond the float range) stands
    # in for that assumption on every run
    from contracts.value_c import VALUE_COMPARE_WITNESS
    from pyvc.replay import run_witness
    res = run_witness(VALUE_COMPARE_WITNESS, timeout=300)
    pr.bounded.append('value.value_compare on machine numbers: bounded native stand-in — range, antisymmetry, spelling and (on the numbers) '
                      'transitivity over a 30-value grid including 2**53, 2**53+1, float(2**53), +-inf, 10**400, +-1e308 (IEEE rounding and '
                      'infinities are outside the logic, which treats numbers as mathematical)')
    if res.get('violates'):
        pr.failures.append({'obligation': 'C11.bounded.value_compare-on-machine-numbers', 'function': 'value.value_compare', 'path': '',
                            'inputs': res['counterexamples'][0], 'replay': {'reproduced': True, 'observed': res['counterexamples']},
                            'solver': {'backend': 'native-bounded', 'verdict': 'counterexample', 'output': ''}})
    elif 'error' in res:
        pr.errors.append('value_compare witness failed to run: ' + str(res['error'])[-300:])
    # consumers
    run_contracts(pr, CMPLIB, tier)
    run_contracts_sel(pr, [EVALUATE_EXPRESSION], tier, 'C11')
    pr.assumptions += RUNTIME_ASSUMPTIONS + [
        'values are acyclic with string keys; the induction that lifts the CMP/LEX/DLEX step lemmas to all values is structural (measure: tree height, then remaining length) and is not itself discharged',
        'datetime normalisation (astimezone) is an uninterpreted monotone-agnostic map U2L: the order on normalised instants is the integer order',
        'list.sort(key=cmp_to_key(value_compare)) returns an ordered permutation provided the comparison is a total preorder (assumed contract of list.sort; the proviso is the lemma layer)',
        'string order is z3 native lexicographic order on code points (CPython compares code points)',
    ]
    return pr
