"""C11 — value comparison is a total preorder and every consumer agrees with it."""
from pyvc.report import PropertyRun
from contracts.value_c import VALUE_COMPARE
from contracts.lib_cmp import LIB as CMPLIB
from contracts.cmp_lemmas import discharge_all
from contracts.runtime_c import EVALUATE_EXPRESSION
from .common import run_contracts, run_contracts_sel
from .runtime_common import RUNTIME_ASSUMPTIONS


def run(tier):
    pr = PropertyRun('C11', tier)
    # the code is the specification function CMP
    run_contracts(pr, [VALUE_COMPARE], tier)
    # CMP is a total preorder (lemma layer, hand-applied induction)
    for name, verdict, backend, secs, detail in discharge_all(60000 if tier == 'thorough' else 10000):
        if name.startswith('MUST-FAIL'):
            if verdict != 'sat':
                pr.errors.append(f'vacuity guard: {name} was not refuted ({verdict}) — the lemma harness is unsound')
            continue
        pr.add_obligation('C11.' + name, verdict, backend, secs, detail=detail)
    # consumers
    run_contracts(pr, CMPLIB, tier)
    run_contracts_sel(pr, [EVALUATE_EXPRESSION], tier, 'C11')
    pr.assumptions += RUNTIME_ASSUMPTIONS + [
        'values are acyclic with string keys; the induction that lifts the CMP/LEX/DLEX step lemmas to all values is structural (measure: tree height, then remaining length) and is not itself discharged',
        'datetime normalisation (astimezone) is an uninterpreted monotone-agnostic map U2L: the order on normalised instants is the integer order',
        'list.sort(key=cmp_to_key(value_compare)) returns an ordered permutation provided the comparison is a total preorder (assumed contract of list.sort; the proviso is the lemma layer)',
        'string order is z3 native lexicographic order on code points (CPython compares code points)',
    ]
    return pr
