"""C14 — JSON serialisation is faithful (partial): the text-level clean-up that value_json applies to the encoder output.

value_json(v) = cleanup2(cleanup1(JSONEncoder.encode(v))). The encoder and json.loads are a dependency (assumed to be
inverse on the JSON value domain, to emit RFC 8259 text with floats printed by float.__repr__). What is decided here, for
ALL texts (regex-language obligations over the real patterns, re-read from the source on every run), is the contract of
the clean-up step:

  * string tokens (values and keys) pass through unchanged,
  * the ".0" tail of an integral number is removed in front of every terminator a JSON number can have,
  * a number with a real fraction or an exponent is left alone,
  * a rewrite deletes nothing but a '.' followed by zeros.
"""
import ast
import json
import time
try:
    import re._parser as sre_parse
except ImportError:  # pragma: no cover
    import sre_parse
import z3
from pyvc.report import PropertyRun
from pyvc.source import Repo
from pyvc.relang import _items, Untranslatable, DIGIT
from pyvc.replay import run_witness

D = DIGIT
NZ = z3.Range('1', '9')
RS = z3.ReSort(z3.StringSort())
ANY = z3.Full(RS)


def cat(*xs):
    return z3.Concat(*xs)


def lit(t):
    return z3.Re(t)


# the text of a string token as the encoder emits it (ensure_ascii): printable ASCII, the two-character escapes and \uXXXX
HEX = z3.Union(D, z3.Range('a', 'f'), z3.Range('A', 'F'))
PLAIN = z3.Union(z3.Range(' ', '!'), z3.Range('#', '['), z3.Range(']', '~'))
ESC = cat(lit('\\'), z3.Union(*[lit(c) for c in '"\\/bfnrt']))
UESC = cat(lit('\\u'), HEX, HEX, HEX, HEX)
STR = cat(lit('"'), z3.Star(z3.Union(PLAIN, ESC, UESC)), lit('"'))
# number tokens: float.__repr__ grammar (ASSUMED, as in C13) with an optional sign
FRAC_NZ = cat(z3.Star(D), NZ)
SIGN = z3.Option(lit('-'))
NUM_INTEGRAL = cat(SIGN, z3.Plus(D), lit('.0'))
NUM_FRACTIONAL = cat(SIGN, z3.Plus(D), lit('.'), FRAC_NZ)
NUM_EXPONENT = cat(SIGN, D, z3.Option(cat(lit('.'), FRAC_NZ)), lit('e'), z3.Union(lit('+'), lit('-')), D, z3.Plus(D))
NUM_INT = cat(SIGN, z3.Plus(D))
TERMINATORS = [',', '}', ']']        # what can follow a number inside a line of encoder output; end of line is the other case


def solve(pr, name, facts, goal=None, witness=None, function='value.value_json'):
    """facts ∧ ¬goal unsat?  A model is replayed natively when `witness(model)` builds a value_json input from it."""
    s = z3.Solver()
    s.set('timeout', 30000)
    for f in facts:
        s.add(f)
    if goal is not None:
        s.add(z3.Not(goal))
    t0 = time.time()
    r = s.check()
    secs = time.time() - t0
    backend = 'z3'
    detail = ''
    if r == z3.unknown:
        from pyvc.solve import run_cvc5
        r5, out = run_cvc5(s.to_smt2(), 30000)
        if r5 == 'unsat':
            pr.add_obligation(name, 'unsat', 'cvc5', time.time() - t0, function=function)
            return
        detail = s.reason_unknown() + ' | cvc5: ' + out[:200]
        pr.add_obligation(name, 'unknown', 'z3+cvc5', secs, detail=detail, function=function)
        return
    if r == z3.unsat:
        pr.add_obligation(name, 'unsat', backend, secs, function=function)
        return
    m = s.model()
    detail = str(m)[:600]
    inputs, replay = None, {}
    if witness is not None:
        try:
            inputs = witness(m)
        except Exception as e:  # the model is not a replayable value: the violation is still reported
            inputs = None
            replay = {'error': f'{type(e).__name__}: {e}'}
        if isinstance(inputs, tuple) and inputs[0] == 'code':
            res = run_witness(inputs[1])
            inputs = 'fixed family of numeric values (native witness program)'
            replay = {'reproduced': bool(res.get('violates')), 'observed': res}
        elif inputs is not None:
            code = ('import json\nfrom bare_script.value import value_json\n'
                    f'v = json.loads({json.dumps(json.dumps(inputs))})\n'
                    'bad = []\n'
                    'for indent in (None, 2):\n'
                    '    t = value_json(v, indent)\n'
                    '    try:\n'
                    '        ok = json.loads(t) == v\n'
                    '    except ValueError:\n'
                    '        ok = False\n'
                    '    if not ok:\n'
                    '        bad.append([indent, t])\n'
                    'result = {"violates": bool(bad), "observed": bad}\n')
            res = run_witness(code)
            replay = {'reproduced': bool(res.get('violates')), 'observed': res}
    if witness is not None and not replay.get('reproduced'):
        # the model's own text did not replay: a fixed family of awkward strings and numbers (native witness program)
        for fam in (STR_FAMILY, NUM_FAMILY):
            res = run_witness(fam)
            if res.get('violates'):
                inputs = 'fixed family of strings/numbers (native witness program)'
                replay = {'reproduced': True, 'observed': res}
                break
    pr.add_obligation(name, 'sat', backend, secs, detail=detail, function=function, inputs={'value': inputs}, replay=replay)


NUM_FAMILY = ('import json\nfrom bare_script.value import value_json\n'
              'bad = []\n'
              'for v in ([1.5, 2.0], {"a": 1.5, "b": 2.0}, [1.25], [1.5e-07, 1.0], [1e+16, 1.0], 2.0, 1.05, [10.0, 100.5], {"a": [1.0]}):\n'
              '    for indent in (None, 2):\n'
              '        t = value_json(v, indent)\n'
              '        try:\n'
              '            ok = json.loads(t) == v and ".0" not in t.replace("0.0", "")\n'
              '        except ValueError:\n'
              '            ok = False\n'
              '        if not ok:\n'
              '            bad.append([v, indent, t])\n'
              'result = {"violates": bool(bad), "observed": bad[:3]}\n')


STR_FAMILY = ('import json\nfrom bare_script.value import value_json\n'
              'bad = []\n'
              'texts = ["a.0,b", "x.00]", "k.0}", "q\\".0,", "a\\".0,b", "\\\\", "\\\\\\".0]", "e\\\\\\\\.0}", "\\n.0,", "\u00e9.0]", ".0", "1.0,2.0"]\n'
              'for t in texts:\n'
              '    for v in (t, [t, 1.0, t], {t: 1.0, "z": t}, [[t], 2.0]):\n'
              '        for indent in (None, 2):\n'
              '            out = value_json(v, indent)\n'
              '            try:\n'
              '                ok = json.loads(out) == v and "1.0" not in out.replace(t, "") and "2.0" not in out.replace(t, "")\n'
              '            except ValueError:\n'
              '                ok = False\n'
              '            if not ok:\n'
              '                bad.append([v, indent, out])\n'
              'result = {"violates": bool(bad), "observed": bad[:3]}\n')


def num_family(model):
    return ('code', NUM_FAMILY)


def alternatives(pattern):
    """top-level alternatives of a pattern as (items, capture group numbers it consists of entirely or None)"""
    parsed = sre_parse.parse(pattern)
    items = list(parsed)
    if len(items) == 1 and str(items[0][0]) == 'BRANCH':
        alts = [list(a) for a in items[0][1][1]]
    else:
        alts = [items]
    out = []
    for a in alts:
        whole = a[0][1][0] if len(a) == 1 and str(a[0][0]) == 'SUBPATTERN' else None
        out.append((a, whole))
    return out


def groups_in(items):
    found = []

    def walk(xs):
        for op, av in xs:
            o = str(op)
            if o == 'SUBPATTERN':
                if av[0] is not None:
                    found.append((av[0], av[3]))
                walk(av[3])
            elif o in ('MAX_REPEAT', 'MIN_REPEAT'):
                walk(av[2])
            elif o == 'BRANCH':
                for a in av[1]:
                    walk(a)
    walk(items)
    return found


def sub_calls(func):
    """the `<REGEX>.sub(<template>, ...)` calls of value_json in source order: [(regex name, template)]"""
    out = []
    for node in ast.walk(func):
        if isinstance(node, ast.Call) and isinstance(node.func, ast.Attribute) and node.func.attr == 'sub' and \
                isinstance(node.func.value, ast.Name) and node.args and isinstance(node.args[0], ast.Constant):
            out.append((node.lineno, node.func.value.id, node.args[0].value))
    return [(n, t) for _, n, t in sorted(out)]


def template_groups(template):
    """the template as a list of group numbers, or None when it contains anything but back-references"""
    import re
    if not re.fullmatch(r'(?:\\[1-9]|\\g<\d+>)*', template):
        return None
    return [int(x) for x in re.findall(r'\d+', template)]


class _Only:
    """forwards to a PropertyRun only the obligations whose name passes `select` (C12 takes the clauses tagged for it)"""

    def __init__(self, pr, select):
        self._pr, self._select = pr, select
        self.errors = pr.errors

    def add_obligation(self, name, *a, **kw):
        if self._select(name):
            self._pr.add_obligation(name, *a, **kw)


def run(tier):
    pr = PropertyRun('C14', tier, level='other')
    cleanup_obligations(pr)
    encoder_call_obligations(pr)
    from contracts.lib_string import LIB as STRING
    from .common import run_contracts
    run_contracts(pr, [c for c in STRING if c.script_name in ('jsonStringify', 'jsonParse')], tier)
    pr.explanation = EXPLANATION
    pr.assumptions += ASSUMPTIONS
    pr.not_proved += ['injectivity of the serialisation and sorted key order: properties of the stdlib encoder (assumed dependency contract)',
                      'json.loads itself is a stdlib dependency (assumed: inverse of the encoder on JSON values, new containers on every call)']
    return pr


def encoder_call_obligations(pr):
    """The assumed contract of the stdlib encoder (sorted keys, no NaN/Infinity text, the separators of the two layouts)
    holds only for an encoder constructed with those options: a precondition at every construction site in value.py."""
    repo = Repo()
    value = repo.modules['value']
    sites = []
    for node in ast.walk(value.tree):
        if isinstance(node, ast.Call) and isinstance(node.func, (ast.Name, ast.Attribute)) and \
                (getattr(node.func, 'id', None) or getattr(node.func, 'attr', '')).endswith('JSONEncoder'):
            sites.append(node)
    pr.add_obligation('C14.encoder.construction-sites-found', 'unsat' if sites else 'unknown', 'syntactic', 0.0,
                      detail=f'{len(sites)} JSONEncoder construction sites in value.py')
    for node in sites:
        kw = {k.arg: k.value for k in node.keywords}
        where = f'value.py:{node.lineno}'

        def const(name):
            v = kw.get(name)
            return v.value if isinstance(v, ast.Constant) else None
        witness_sorted = ('import json\nfrom bare_script.value import value_json\n'
                          'a = {"b": 1, "a": {"d": 1, "c": 2}}\nbad = []\n'
                          'for indent in (None, 1, 2, 4):\n'
                          '    t = value_json(a, indent)\n'
                          '    if list(json.loads(t)) != ["a", "b"] or list(json.loads(t)["a"]) != ["c", "d"]:\n'
                          '        bad.append([indent, t])\n'
                          'result = {"violates": bool(bad), "observed": bad[:2]}\n')
        def verdict(name, want):
            # a literal decides; an option computed at run time is undecided here, not a violation
            if name in kw and not isinstance(kw[name], ast.Constant):
                return 'unknown'
            return 'unsat' if const(name) is want else 'sat'
        ok = const('sort_keys') is True
        pr.add_obligation(f'C14.encoder.{where}.sorts-keys', verdict('sort_keys', True), 'syntactic', 0.0, function='value.value_json',
                          detail='sort_keys=True is required for "object keys in sorted order" and for equal objects to serialise equally',
                          inputs=None if verdict('sort_keys', True) != 'sat' else {'value': {'b': 1, 'a': {'d': 1, 'c': 2}}},
                          replay=None if verdict('sort_keys', True) != 'sat' else (lambda res: {'reproduced': bool(res.get('violates')), 'observed': res})(run_witness(witness_sorted)))
        pr.add_obligation(f'C14.encoder.{where}.rejects-non-finite-numbers', verdict('allow_nan', False), 'syntactic', 0.0,
                          function='value.value_json', detail='allow_nan=False keeps NaN/Infinity (not JSON) out of the text')
        seps = kw.get('separators')
        try:
            seps = ast.literal_eval(seps) if seps is not None else None
        except ValueError:
            seps = None
        ok = seps is not None and seps[0] == ',' and seps[1] in (':', ': ')
        pr.add_obligation(f'C14.encoder.{where}.separators-are-the-token-grammar-of-the-cleanup', 'unsat' if ok else 'sat', 'syntactic', 0.0,
                          function='value.value_json', detail=f'separators {seps!r}: the clean-up contract is stated for numbers followed by "," "}}" "]" or the end of a line')


def cleanup_obligations(pr):
    repo = Repo()
    value = repo.modules['value']
    func = value.functions['value_json']
    calls = sub_calls(func)
    pr.add_obligation('C14.value_json.cleanup-steps-found', 'unsat' if calls else 'unknown', 'syntactic', 0.0,
                      detail=f'value_json applies {calls}')
    s, p, m, q, u, w = z3.Strings('s p m q u w')
    for rx_name, template in calls:
        node = value.assigns.get(rx_name)
        if node is None or not node.args or not isinstance(node.args[0], ast.Constant):
            pr.add_obligation(f'C14.{rx_name}.pattern-is-a-literal', 'unknown', 'syntactic', 0.0, detail='pattern not a literal')
            continue
        pattern = node.args[0].value
        flags = ' '.join(ast.unparse(a) for a in node.args[1:])
        multiline = 'MULTILINE' in flags
        tgroups = template_groups(template)
        try:
            alts = alternatives(pattern)
            eol_anchor = False
            protect, rewrite = [], []
            for items, whole in alts:
                body = [it for it in items if str(it[0]) != 'AT']
                anchors = [str(it[1]) for it in items if str(it[0]) == 'AT']
                if anchors and anchors != ['AT_END']:
                    raise Untranslatable('anchor ' + ','.join(anchors))
                if anchors and str(items[-1][0]) != 'AT':
                    raise Untranslatable('anchor inside the pattern')
                if whole is not None and tgroups is not None and tgroups.count(whole) == 1 and not anchors:
                    protect.append((_items(body), whole))
                else:
                    rewrite.append((_items(body), bool(anchors), groups_in(body)))
        except Untranslatable as e:
            pr.add_obligation(f'C14.{rx_name}.pattern-is-in-the-translated-dialect', 'unknown', 'syntactic', 0.0,
                              detail=f'{pattern!r}: {e}')
            continue
        tag = f'C14.{rx_name}'
        # the alternatives that only copy their text must come first (Python alternation is ordered)
        PROT = z3.Union(*[r for r, _ in protect]) if len(protect) > 1 else (protect[0][0] if protect else None)
        order_ok = all(alts[i][1] is not None for i in range(len(protect)))
        if protect and not order_ok:
            # Python alternation is ordered: a rewrite listed before the copying alternative must not be able to start
            # where a copy starts
            x = z3.String('x')
            RW_ = z3.Union(*[r for r, _, _ in rewrite]) if len(rewrite) > 1 else rewrite[0][0]
            solve(pr, f'{tag}.copy-and-rewrite-cannot-start-at-the-same-position',
                  [z3.InRe(x, cat(PROT, ANY)), z3.InRe(x, cat(RW_, ANY))], z3.BoolVal(False))

        def str_witness(model):
            token = model[s].as_string() if model[s] is not None else '""'
            token = token.encode('ascii', 'backslashreplace').decode('ascii') if False else token
            import re as _re
            token = _re.sub(r'\\u\{([0-9a-fA-F]+)\}', lambda mm: chr(int(mm.group(1), 16)), token)
            return [json.loads(token), {json.loads(token): 1.0}]

        for ix, (REWR, at_eol, grps) in enumerate(rewrite):
            rt = f'{tag}.rewrite{ix}'
            # what may follow a match: anything; for an end-of-line anchor, the end of the text or (MULTILINE) a newline
            AFTER = (z3.Union(z3.Re(''), cat(lit('\n'), ANY)) if multiline else z3.Re('')) if at_eol else ANY
            HIT = cat(ANY, REWR, AFTER)          # the texts in which this alternative matches somewhere
            # (1) string tokens pass through
            if PROT is None:
                solve(pr, f'{rt}.never-matches-inside-a-string-token',
                      [z3.InRe(s, STR), z3.InRe(s, HIT)], z3.BoolVal(False), witness=str_witness)
            else:
                solve(pr, f'{rt}.cannot-reach-across-a-quote',
                      [z3.InRe(m, REWR), z3.Contains(m, z3.StringVal('"'))], z3.BoolVal(False))
            # (2) a rewrite deletes only a '.' followed by zeros, and re-emits the rest of its match
            kept = [g for g in (tgroups or []) if any(g == gid for gid, _ in grps)]
            if tgroups is None:
                pr.add_obligation(f'{rt}.template-only-re-emits-groups', 'sat', 'syntactic', 0.0, detail=f'template {template!r}')
            KEEP = z3.Re('')
            for g in kept:
                KEEP = cat(KEEP, _items(dict(grps)[g]))
            solve(pr, f'{rt}.deletes-only-a-dot-and-zeros', [z3.InRe(m, REWR)],
                  z3.InRe(m, cat(lit('.'), z3.Star(lit('0')), KEEP)), witness=num_family)
            # (3) numbers with a fraction or an exponent, and plain integers, are left alone
            for nm, NUM in (('fractional', NUM_FRACTIONAL), ('exponent', NUM_EXPONENT), ('integer', NUM_INT)):
                TAILS = z3.Union(*([lit(t) for t in TERMINATORS] + [lit('\n'), z3.Re('')]))
                solve(pr, f'{rt}.{nm}-number-is-left-alone',
                      [z3.InRe(u, cat(NUM, TAILS)), z3.InRe(u, HIT)], z3.BoolVal(False), witness=num_family)
        if PROT is not None:
            # the copying alternative takes exactly one whole string token at an opening quote
            solve(pr, f'{tag}.every-string-token-is-copied-whole', [z3.InRe(s, STR)], z3.InRe(s, PROT), witness=str_witness)
            MORE = z3.Plus(z3.AllChar(RS))
            solve(pr, f'{tag}.a-copy-never-stops-inside-a-string-token',
                  [z3.InRe(s, STR), z3.InRe(s, cat(PROT, MORE))], z3.BoolVal(False), witness=str_witness)
            solve(pr, f'{tag}.a-copy-never-runs-past-the-closing-quote',
                  [z3.InRe(u, PROT), z3.InRe(u, cat(STR, MORE))], z3.BoolVal(False))
    # (4) every terminator of an integral number is served by some step: ",", "}", "]" inside a line, or the end of a line
    rewr_all = []
    eol_served = False
    for rx_name, template in calls:
        node = value.assigns.get(rx_name)
        if node is None or not node.args or not isinstance(node.args[0], ast.Constant):
            continue
        pattern = node.args[0].value
        flags = ' '.join(ast.unparse(a) for a in node.args[1:])
        try:
            for items, whole in alternatives(pattern):
                body = [it for it in items if str(it[0]) != 'AT']
                anchors = [str(it[1]) for it in items if str(it[0]) == 'AT']
                if anchors == ['AT_END']:
                    if 'MULTILINE' in flags:
                        s1 = z3.Solver()
                        s1.add(z3.Not(z3.InRe(z3.StringVal('.0'), _items(body))))
                        eol_served = eol_served or s1.check() == z3.unsat
                elif not anchors:
                    rewr_all.append(_items(body))
        except Untranslatable:
            pass
    pr.add_obligation('C14+C12.cleanup.integral-tail-removed-at-end-of-line', 'unsat' if eol_served else 'sat', 'z3', 0.0,
                      detail='a MULTILINE step matching ".0" before the end of a line (indented output, top-level numbers)',
                      function='value.value_json',
                      inputs={'value': 'fixed family of numeric values (native witness program)'} if not eol_served else None,
                      replay=(lambda res: {'reproduced': bool(res.get('violates')), 'observed': res})(run_witness(NUM_FAMILY)) if not eol_served else None)
    RW = z3.Union(*rewr_all) if len(rewr_all) > 1 else (rewr_all[0] if rewr_all else z3.Re('\x00never'))
    for t in TERMINATORS:
        def num_witness(model, t=t):
            return {',': [1.0, 2.0], '}': {'a': 1.0}, ']': [1.0]}[t]
        # replayed through json text equality: the integral float must print without a fraction
        s2 = z3.Solver()
        s2.add(z3.Not(z3.InRe(z3.StringVal('.0' + t), RW)))
        r = s2.check()
        if r == z3.unsat:
            pr.add_obligation(f'C14+C12.cleanup.integral-tail-removed-before-{t!r}', 'unsat', 'z3', 0.0, function='value.value_json')
        else:
            v = num_witness(None)
            code = ('import json\nfrom bare_script.value import value_json\n'
                    f'v = json.loads({json.dumps(json.dumps(v))})\n'
                    't = value_json(v)\n'
                    'result = {"violates": ".0" in t, "observed": t}\n')
            res = run_witness(code)
            pr.add_obligation(f'C14+C12.cleanup.integral-tail-removed-before-{t!r}', 'sat', 'z3', 0.0,
                              detail='the integral float keeps its ".0" in front of this terminator, so the int and float spellings serialise differently',
                              function='value.value_json', inputs={'value': v},
                              replay={'reproduced': bool(res.get('violates')), 'observed': res})
    # vacuity guards: the token languages are inhabited, and an unprotected rewrite must be refuted
    g = z3.Solver()
    g.add(z3.InRe(s, STR), z3.Contains(s, z3.StringVal('.0,')))
    if g.check() != z3.sat:
        pr.errors.append('vacuity guard: no string token containing ".0," found')


EXPLANATION = ('value_json = clean-up(JSONEncoder.encode(v)). Proved for all texts (regex-language obligations on the real '
               'patterns): string tokens are copied whole, rewrites delete only ".0*" in front of a terminator, fractional/'
               'exponent/integer number tokens are untouched, every terminator of an integral number is served. ASSUMED: '
               'json.JSONEncoder/json.loads round-trip and token grammar, float.__repr__ grammar, left-to-right non-overlapping '
               'scanning of re.sub with ordered alternation (meta-lemma: with the copying alternative first and no rewrite '
               'able to contain a quote, the scan is never positioned inside a string token).')
ASSUMPTIONS = [
    'json.JSONEncoder(sort_keys, allow_nan=False).encode emits RFC 8259 text whose string tokens lie in the ensure_ascii grammar and whose floats are float.__repr__; json.loads inverts it on null/bool/finite numbers/strings/arrays/string-keyed objects (stdlib dependency, assumed)',
    're.sub scans left to right over non-overlapping leftmost matches, trying alternatives in order (CPython re semantics, assumed); the induction "the scan is never inside a string token" is a meta-lemma over obligations copying-alternatives-come-first, every-string-token-is-copied-whole, a-copy-...-ends-at-the-closing-quote and cannot-reach-across-a-quote',
    'float.__repr__ grammar as in C13',
]
