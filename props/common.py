"""props.common — shared plumbing for the per-property checks."""
import os
import sys

from pyvc.interp import Config
from pyvc.run import verify_many
from pyvc.replay import replay
from contracts.value_c import BASE, BASE_INLINE


def tier_timeout(tier):
    return 60000 if tier == 'thorough' else 10000


def lib_cfg(contract):
    cfg = Config(inline=set(BASE_INLINE) | set(getattr(contract, 'inline', ())), contracts=dict(BASE),
                 loop_specs=getattr(contract, 'loop_specs', None) or {},
                 unroll=getattr(contract, 'unroll', 0),
                 callable_model=getattr(contract, 'callable_model', None),
                 hooks=getattr(contract, 'hooks', None) or {},
                 branch_timeout_ms=getattr(contract, 'branch_timeout_ms', 2000))
    for q, c in (getattr(contract, 'callee_contracts', None) or {}).items():
        cfg.contracts[q] = c
    return cfg


def run_contracts(run, contracts, tier, cfg_factory=lib_cfg):
    reports = verify_many(contracts, cfg_factory, timeout_ms=tier_timeout(tier), include_slow=(tier == 'thorough'))
    by_qual = {c.qual: c for c in contracts}
    for rep in reports:
        run.add_function_report(rep, by_qual[rep['function']], replayer=replay)
    return reports


import re as _re
_TAG = _re.compile(r'\.(C\d\d(?:\+C\d\d)*)\.')


def belongs(prop, extra=()):
    """obligation selector: untagged obligations (frames, invariants, callee preconditions) support every property
    that uses the function; a clause tagged Cxx (or Cxx+Cyy) belongs to those properties only"""
    def select(name):
        m = _TAG.search(name)
        if m is None:
            return True
        tags = m.group(1).split('+')
        return prop in tags or any(t in tags for t in extra)
    return select


def run_contracts_sel(run, contracts, tier, prop, extra=(), cfg_factory=lib_cfg):
    reports = verify_many(contracts, cfg_factory, timeout_ms=tier_timeout(tier), include_slow=(tier == 'thorough'))
    by_qual = {c.qual: c for c in contracts}
    sel = belongs(prop, extra)
    for rep in reports:
        run.add_function_report(rep, by_qual[rep['function']], replayer=replay, select=sel)
    return reports
