"""C08 — jump-level models execute by the documented statement semantics."""
from pyvc.report import PropertyRun
from .common import run_contracts_sel
from .runtime_common import RUNTIME, RUNTIME_ASSUMPTIONS


def run(tier):
    pr = PropertyRun('C08', tier)
    run_contracts_sel(pr, RUNTIME, tier, 'C08')
    # the include arm of the statement loop is not proved: bounded native stand-in (includes run in the global scope, in order)
    from .C17 import include_bounded
    include_bounded(pr, 'C08')
    pr.assumptions += RUNTIME_ASSUMPTIONS
    return pr
