"""C08 — jump-level models execute by the documented statement semantics."""
from pyvc.report import PropertyRun
from .common import run_contracts_sel
from .runtime_common import RUNTIME, RUNTIME_ASSUMPTIONS


def run(tier):
    pr = PropertyRun('C08', tier)
    run_contracts_sel(pr, RUNTIME, tier, 'C08')
    pr.assumptions += RUNTIME_ASSUMPTIONS
    return pr
