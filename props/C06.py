"""C06 — the parser is total and its diagnostics point at the offending source."""
from pyvc.report import PropertyRun
from contracts.parser_c import PARSE_UNARY, PARSE_BINARY, PARSE_EXPRESSION
from contracts.parse_script_c import PARSE_SCRIPT_BODY
from .common import run_contracts_sel

PARSER_ASSUMPTIONS = [
    'the line loop of parse_script is verified one iteration at a time from an ASSUMED state-typing invariant (types and allocation bounds of script, function_def, label_defs entries, line_continuation); the preservation of that typing invariant is not discharged',
    'regex matching is abstract: whether a pattern matches is an uninterpreted function of the line, groups are arbitrary substrings constrained by what the pattern tree implies (literal alternatives, optionality, nesting lengths, a group lies inside the subject)',
    'parse_script is verified for a single str argument (the iterable-of-chunks entry only adds the line-splitting loop)',
    'RecursionError for operator chains deeper than the interpreter stack is outside the model',
]


def run(tier):
    pr = PropertyRun('C06', tier)
    run_contracts_sel(pr, [PARSE_SCRIPT_BODY, PARSE_EXPRESSION, PARSE_UNARY, PARSE_BINARY], tier, 'C06')
    pr.assumptions += PARSER_ASSUMPTIONS + [
        'the caret placement inside BareScriptParserError.__init__ (long-line elision) is not under contract yet',
        'the "shift by k lines" clause follows from line_number = start_line_number + ix_line (proved per raise site) and C10',
    ]
    return pr
