"""C02 — expression text parses to the tree the precedence rules dictate."""
import ast
import time
from pyvc.report import PropertyRun
from pyvc.source import Repo
from pyvc.replay import run_witness
from contracts.parser_c import PARSE_UNARY, PARSE_BINARY, PARSE_EXPRESSION, RANK, OPS
from .common import run_contracts_sel

CHAIN_CHECK = """
import itertools
from bare_script.parser import parse_expression, BareScriptParserError
RANK = %r
OPS = list(RANK)

def reference(tokens):
    # precedence climbing written from the property statement: higher level binds tighter, equal levels associate left
    pos = [0]
    def primary():
        t = tokens[pos[0]]; pos[0] += 1
        return {'variable': t}
    def climb(min_rank):
        left = primary()
        while pos[0] < len(tokens) and RANK[tokens[pos[0]]] >= min_rank:
            op = tokens[pos[0]]; pos[0] += 1
            right = climb(RANK[op] + 1)
            left = {'binary': {'op': op, 'left': left, 'right': right}}
        return left
    return climb(0)

bad = None
count = 0
names = ['aa', 'bb', 'cc', 'dd', 'ee', 'ff', 'gg']
for n in range(1, %d + 1):
    for ops in itertools.product(OPS, repeat=n):
        tokens = [names[0]]
        for i, op in enumerate(ops):
            tokens += [op, names[i + 1]]
        text = ' '.join(tokens)
        count += 1
        got = parse_expression(text)
        exp = reference(tokens)
        if got != exp:
            bad = {'text': text, 'parsed': got, 'expected': exp}
            break
    if bad:
        break
# unary binds tighter, parentheses override, malformed text is rejected
extra = [('-aa ** bb', {'binary': {'op': '**', 'left': {'unary': {'op': '-', 'expr': {'variable': 'aa'}}}, 'right': {'variable': 'bb'}}}),
         ('(aa + bb) * cc', {'binary': {'op': '*', 'left': {'group': {'binary': {'op': '+', 'left': {'variable': 'aa'}, 'right': {'variable': 'bb'}}}}, 'right': {'variable': 'cc'}}})]
for text, exp in extra:
    if bad is None and parse_expression(text) != exp:
        bad = {'text': text, 'parsed': parse_expression(text), 'expected': exp}
for text in ['aa +', 'aa bb', '(aa', 'aa + * bb', ')']:
    try:
        parse_expression(text)
        if bad is None:
            bad = {'text': text, 'parsed': 'accepted', 'expected': 'BareScriptParserError'}
    except BareScriptParserError:
        pass
result = {'chains_checked': count, 'violates': bad is not None, 'counterexample': bad}
"""


TOKEN_EMBED = {'_R_EXPR_BINARY_OP': 'aa%sbb', '_R_EXPR_UNARY_OP': '%saa', '_R_EXPR_FUNCTION_SEPARATOR': 'foo(aa%sbb)',
               '_R_EXPR_FUNCTION_CLOSE': 'foo(aa%s', '_R_EXPR_GROUP_OPEN': '%saa)', '_R_EXPR_GROUP_CLOSE': '(aa%s'}


def token_language_obligations(pr, m):
    import z3
    from pyvc.relang import to_re, SPACE, Untranslatable
    ws = z3.Star(SPACE)

    def lit(t):
        return z3.Re(t)
    spec = {'_R_EXPR_BINARY_OP': z3.Concat(ws, z3.Union(*[lit(o) for o in OPS])),
            '_R_EXPR_UNARY_OP': z3.Concat(ws, z3.Union(lit('!'), lit('-'))),
            '_R_EXPR_FUNCTION_SEPARATOR': z3.Concat(ws, lit(',')),
            '_R_EXPR_FUNCTION_CLOSE': z3.Concat(ws, lit(')')),
            '_R_EXPR_GROUP_OPEN': z3.Concat(ws, lit('(')),
            '_R_EXPR_GROUP_CLOSE': z3.Concat(ws, lit(')'))}
    x = z3.String('x')
    for name, SPEC in spec.items():
        node = m.assigns.get(name)
        oname = f'C02.token.{name}.is-exactly-the-grammar-token'
        try:
            pattern = ast.literal_eval(node.args[0])
            if not pattern.startswith('^'):
                raise Untranslatable('pattern is not anchored at the start of the remaining text')
            CODE = to_re(pattern)
        except Exception as e:
            pr.add_obligation(oname, 'unknown', 'syntactic', 0.0, detail=f'{type(e).__name__}: {e}', function='parser.' + name)
            continue
        sv = z3.Solver()
        sv.set('timeout', 20000)
        # compared up to trailing blanks: every token regex starts with \\s*, so a token that also swallows the blanks after
        # it tokenises every text the same way
        CODE, SPEC = z3.Concat(CODE, ws), z3.Concat(SPEC, ws)
        sv.add(z3.InRe(x, CODE) != z3.InRe(x, SPEC))
        t0 = time.time()
        r = sv.check()
        secs = time.time() - t0
        if r == z3.unsat:
            pr.add_obligation(oname, 'unsat', 'z3', secs, function='parser.' + name)
        elif r == z3.sat:
            tok = sv.model()[x].as_string()
            in_code = z3.is_true(sv.model().eval(z3.InRe(x, CODE), model_completion=True))
            text = TOKEN_EMBED[name] % tok
            code = ('from bare_script.parser import parse_expression, BareScriptParserError\n'
                    f'text = {text!r}\n'
                    'try:\n    got = parse_expression(text)\n    accepted = True\n'
                    'except BareScriptParserError as exc:\n    got = str(exc)\n    accepted = False\n'
                    f'result = {{"violates": accepted == {in_code!r}, "text": text, "accepted": accepted, "observed": got}}\n')
            res = run_witness(code)
            pr.add_obligation(oname, 'sat', 'z3', secs, function='parser.' + name,
                              detail=f'token text {tok!r} is {"accepted by the code but not a grammar token" if in_code else "a grammar token the code rejects"}',
                              inputs={'text': text}, replay={'reproduced': bool(res.get('violates')), 'observed': res})
        else:
            pr.add_obligation(oname, 'unknown', 'z3', secs, detail=sv.reason_unknown(), function='parser.' + name)


def run(tier):
    pr = PropertyRun('C02', tier)
    # (1) the precedence table, exhaustively: l in BINARY_REORDER[o]  <=>  rank(l) < rank(o)
    m = Repo().modules['parser']
    table = m.assigns['BINARY_REORDER']
    t0 = time.time()
    tab = {}
    for k, v in zip(table.keys, table.values):
        key = ast.literal_eval(k)
        tab[key] = set() if isinstance(v, ast.Call) else set(ast.literal_eval(v))
    for o in OPS:
        for l in OPS:
            ok = o in tab and ((l in tab[o]) == (RANK[l] < RANK[o]))
            pr.add_obligation(f'C02.table.{l}-in-REORDER[{o}]', 'unsat' if ok else 'sat', 'exhaustive', 0.0,
                              detail=f'{l!r} in BINARY_REORDER[{o!r}] is {o in tab and l in tab[o]}; rank({l})={RANK[l]}, rank({o})={RANK[o]}',
                              function='parser.BINARY_REORDER',
                              replay={'reproduced': not ok, 'observed': {'operator': o, 'left_operator': l,
                                                                          'in_table': o in tab and l in tab.get(o, ())}})
    ok_keys = set(tab) == set(OPS)
    pr.add_obligation('C02.table.keys-are-the-fourteen-operators', 'unsat' if ok_keys else 'sat', 'exhaustive', time.time() - t0,
                      detail=str(sorted(tab)))
    # (1b) the punctuation tokens: each token regex denotes exactly the language the grammar gives it (all strings, z3 regex
    #      theory) — a looser token silently re-interprets malformed text, a tighter one rejects well-formed text
    token_language_obligations(pr, m)
    # (2) the step obligations on the real parser functions
    run_contracts_sel(pr, [PARSE_UNARY, PARSE_BINARY, PARSE_EXPRESSION], tier, 'C02')
    # (3) bounded stand-in for the composition of the steps into whole trees (never counted as proved)
    depth = 5 if tier == 'thorough' else 4
    res = run_witness(CHAIN_CHECK % (RANK, depth), timeout=600)
    pr.bounded.append(f'whole-tree shape and token order: bounded native check of all operator chains up to length {depth} '
                      f'({res.get("chains_checked")} chains) against a precedence-climbing reference, plus unary/group/rejection samples')
    if res.get('violates'):
        pr.failures.append({'obligation': 'C02.bounded.chain-parses-to-the-precedence-tree', 'function': 'parser.parse_expression',
                            'path': '', 'inputs': {'text': res['counterexample']['text']},
                            'replay': {'reproduced': True, 'observed': res['counterexample']},
                            'solver': {'backend': 'native-bounded', 'verdict': 'counterexample', 'output': ''}})
    elif 'error' in res:
        pr.errors.append('bounded chain check failed to run: ' + str(res['error'])[-300:])
    pr.level = 'other'
    pr.explanation = ('Proved: the precedence table equals the rank relation of the property (exhaustive, 196 entries); '
                      '_parse_unary_expression never returns a bare binary node; every insertion of a new operator node is '
                      'either a new root over an operand that binds at least as tight or goes under a looser parent taking over '
                      'its old right operand, writing nothing else; every path returns or raises BareScriptParserError; '
                      'parse_expression rejects a non-blank remainder. Bounded (not proved): composition into whole trees.')
    pr.assumptions += [
        'the tree built so far is tree-shaped and every binary node on its right spine is complete (trusted structural invariant; its preservation needs a separation argument that is not discharged)',
        'which strings tokenise to which operators/operands is the regex engine\'s: group 1 of the operator regexes is one of the literal alternatives of the pattern (derived from the pattern tree)',
        'float() accepts every text of the numeric-literal regex language',
    ]
    return pr
