"""C12 — one number type: int and float spellings of a number are interchangeable."""
import time
import z3
from pyvc.report import PropertyRun
from pyvc.source import Repo
from pyvc.interp import Engine, Config, Ctx, Interp
from contracts.lib import spelling_invariance_obligations
from contracts.lib_array import LIB as ARRAY_OBJECT
from contracts.lib_string import LIB as STRING
from contracts.lib_cmp import LIB as CMPLIB
from contracts.lib_math import LIB as MATHLIB
from contracts.runtime_c import EVALUATE_EXPRESSION
from .common import run_contracts_sel, run_contracts
from .runtime_common import RUNTIME_ASSUMPTIONS


def run(tier):
    pr = PropertyRun('C12', tier)
    libs = ARRAY_OBJECT + STRING + CMPLIB + MATHLIB
    # (1) every library function equals its specification for both spellings (the contracts are stated over the
    #     mathematical value of a number and compare results up to spelling)
    run_contracts(pr, libs, tier)
    # (2) the operator arms
    run_contracts_sel(pr, [EVALUATE_EXPRESSION], tier, 'C12')
    # the row count of dataTop is used in range(): top_data never fails for a valid count in either spelling (bounded run, k=2)
    from contracts.data_c import TOP_DATA
    run_contracts_sel(pr, [TOP_DATA], tier, 'C12')
    # (3) the specifications themselves do not look at the spelling
    repo = Repo()
    ip = Interp(Ctx(Engine(repo, Config()), []))
    for c in libs:
        try:
            obs = spelling_invariance_obligations(c, ip)
        except Exception as e:
            pr.errors.append(f'{c.script_name}: {type(e).__name__}: {e}')
            continue
        for name, hyp, goal in obs:
            s = z3.Solver()
            s.set('timeout', 10000)
            for h in hyp:
                s.add(h)
            s.add(z3.Not(goal))
            t0 = time.time()
            r = s.check()
            pr.add_obligation('C12.' + name, str(r), 'z3', time.time() - t0,
                              detail=str(s.model())[:800] if r == z3.sat else '', function=c.qual)
    # (4) literals are floats, the for-loop index is seeded with an int: both spellings really reach the library
    import ast
    parser = repo.modules['parser']
    src = parser.text
    # decided natively (a syntactic match on the parser's text would turn a renamed local into an alarm): the literal of a
    # parsed expression is a float object
    from pyvc.replay import run_witness
    res = run_witness('from bare_script.parser import parse_expression\n'
                      'vals = [parse_expression(t) for t in ("1", "2.0", "3e+2", "007")]\n'
                      'bad = [repr(v) for v in vals if type(v.get("number")) is not float]\n'
                      'result = {"violates": bool(bad), "observed": bad}\n')
    verdict = 'sat' if res.get('violates') else ('unsat' if 'violates' in res else 'unknown')
    pr.add_obligation('C12.parser.number-literals-are-floats', verdict, 'native', 0.0,
                      detail='parse_expression builds number literals as floats (checked on four literal forms): ' + str(res)[:200],
                      inputs={'text': '1'} if verdict == 'sat' else None,
                      replay={'reproduced': True, 'observed': res} if verdict == 'sat' else None)
    # (5) value_json prints an integral float as the int spelling in front of every terminator
    from .C14 import cleanup_obligations, _Only
    cleanup_obligations(_Only(pr, lambda name: 'C12' in name.split('.')[0]))
    pr.assumptions += RUNTIME_ASSUMPTIONS + [
        'spelling independence is shown for numbers passed as arguments/operands; numbers nested inside arrays and objects are compared through value_compare/value_string/value_json, whose contracts are spelling independent (CMP lemma CMP.int-float-spelling)',
        'functions without a contract yet (regex*, schema*, data*, datetime*, json*, arrayIndexOf/LastIndexOf/Join/Sort, objectNew, stringFromCharCode, systemFetch and friends) are not covered by this run; clock and random functions are excluded by the property',
    ]
    return pr
