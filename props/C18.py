"""C18 — lint is pure, never fails, and its warnings are semantically justified."""
import ast
from pyvc.report import PropertyRun
from pyvc.source import Repo
from contracts.model_c import LINT_SCRIPT_IMPL, IS_POINTLESS, GET_EXPR_USES, GET_ASSIGNS_USES
from contracts.runtime_c import EVALUATE_EXPRESSION
from .common import run_contracts, run_contracts_sel
from .runtime_common import RUNTIME_ASSUMPTIONS

NONDETERMINISTIC = {'random', 'time', 'datetime', 'os', 'uuid', 'id', 'hash', 'input', 'open'}


def determinism_obligations(pr):
    """lint_script and its helpers call nothing nondeterministic, and every iteration whose order reaches the output is
    never over a set (hash order); lists, sorted(...) and dictionaries in insertion order are deterministic"""
    m = Repo().modules['model']
    for fname in ('lint_script', '_is_pointless_expression', '_get_variable_assignments_and_uses', '_get_expression_variable_uses'):
        fn = m.functions[fname]
        bad = []
        set_names = {t.id for n in ast.walk(fn) if isinstance(n, ast.Assign) for t in n.targets if isinstance(t, ast.Name) and (
            isinstance(n.value, (ast.Set, ast.SetComp)) or (isinstance(n.value, ast.Call) and isinstance(n.value.func, ast.Name) and n.value.func.id in ('set', 'frozenset')))}
        for node in ast.walk(fn):
            if isinstance(node, ast.Call):
                f = node.func
                name = f.id if isinstance(f, ast.Name) else (f.value.id if isinstance(f, ast.Attribute) and isinstance(f.value, ast.Name) else '')
                if name in NONDETERMINISTIC:
                    bad.append(f'line {node.lineno}: call through {name}')
            if isinstance(node, (ast.For, ast.comprehension)):
                # iteration over a set of strings depends on the process's hash seed; lists, sorted(...) and dictionaries
                # (insertion order) are deterministic for a given model
                it = node.iter
                if isinstance(it, (ast.Set, ast.SetComp)) or \
                        (isinstance(it, ast.Call) and isinstance(it.func, ast.Name) and it.func.id in ('set', 'frozenset')) or \
                        (isinstance(it, ast.Name) and it.id in set_names):
                    bad.append(f'line {getattr(node, "lineno", getattr(it, "lineno", 0))}: iteration over a set (hash order)')
        pr.add_obligation(f'C18.deterministic.{fname}', 'sat' if bad else 'unsat', 'syntactic', 0.0, detail='; '.join(bad),
                          function=f'model.{fname}', replay={'reproduced': bool(bad), 'observed': {'sites': bad}})


def run(tier):
    pr = PropertyRun('C18', tier, level='other')
    run_contracts(pr, [IS_POINTLESS, GET_EXPR_USES, GET_ASSIGNS_USES, LINT_SCRIPT_IMPL], tier)
    determinism_obligations(pr)
    # "a pointless statement can be deleted": pointless => no function node (proved above); the non-function arms of
    # evaluate_expression perform no host call and no store (C03 obligations `no-host-calls`, frame clauses)
    run_contracts_sel(pr, [EVALUATE_EXPRESSION], tier, 'C18', extra=('C03',))
    pr.explanation = ('Proved on the real code: lint_script and its three helpers return on every path of every schema-valid model '
                      '(no exception), never store below the frozen model bound, write only containers they allocated, and '
                      'return a fresh list; _is_pointless_expression(e) implies e contains no function node (recursive spec, '
                      'recursion by contract), and the non-call arms of evaluate_expression make no host call and no store, so '
                      'deleting a pointless statement changes nothing; determinism: no nondeterministic callee, no iteration '
                      'over a set. Label warnings, one-step specifications '
                      '(induction over the loops is a meta-theorem): the label maps are empty at the head of every scope, each '
                      'statement adds exactly the label it defines / jumps to, a label statement warns iff it redefines, the '
                      'reporting loops warn for exactly the names missing from the other map and name them; the assignment/use '
                      'scans start from empty maps in every scope. The use scan is complete: every name an '
                      'expression reads (variable nodes and called function names, recursive spec USED) is recorded, the statement '
                      'scan records every name read by an expression statement, a conditional jump or a return, and the unused-'
                      'variable loop warns for exactly the assigned names absent from that map — so a reported unused variable is '
                      'read nowhere in its scope. NOT decided: unused-argument and used-before-assignment index arithmetic.')
    pr.assumptions += RUNTIME_ASSUMPTIONS + [
        'the typing of lint\'s working containers at the ten loop heads (its own dicts map names to ints, warnings is its own list) is assumed, not proved',
        'sorted(d.keys()) returns keys of d (assumed contract)',
    ]
    pr.not_proved.append('unused-argument warnings (set bookkeeping of the argument loop) and the index comparison of used-before-assignment: not under contract')
    pr.not_proved.append('label-warning exactness over whole scopes: composition of the proved one-step specifications by induction over the loops is a meta-theorem; sorted(d.keys()) enumerating every key exactly once is assumed')
    return pr
