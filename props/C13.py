"""C13 — numbers survive conversion to text and back; integers print without a fraction."""
import ast
import time
import z3
from pyvc.report import PropertyRun
from pyvc.source import Repo
from pyvc.relang import to_re, group_re, DIGIT
from contracts.lib_math import LIB as MATHLIB
from contracts.value_c import VALUE_STRING_IMPL
from .common import run_contracts

D = DIGIT
NZ = z3.Range('1', '9')


def cat(*xs):
    return z3.Concat(*xs)


# the ASSUMED grammar of float.__repr__ for a finite double x >= 0 (DESIGN.md 3.9):
#   fixed:    D+ '.' D+   with no trailing zero in the fraction except the single form '.0'
#   exponent: D ('.' D+)? 'e' [+-] D D+   (fraction without trailing zero)
FRAC_NZ = cat(z3.Star(D), NZ)                               # a fraction that does not end in 0
REPR_FIXED_INTEGRAL = cat(z3.Plus(D), z3.Re('.'), z3.Re('0'))
REPR_FIXED_FRACTIONAL = cat(z3.Plus(D), z3.Re('.'), FRAC_NZ)
REPR_EXPONENT = cat(D, z3.Option(cat(z3.Re('.'), FRAC_NZ)), z3.Re('e'), z3.Union(z3.Re('+'), z3.Re('-')), D, z3.Plus(D))


def check(pr, name, facts, goal=None, expect_unsat=True):
    s = z3.Solver()
    s.set('timeout', 20000)
    for f in facts:
        s.add(f)
    if goal is not None:
        s.add(z3.Not(goal))
    t0 = time.time()
    r = s.check()
    secs = time.time() - t0
    detail = ''
    if r == z3.sat:
        detail = str(s.model())[:400]
        # a violated language obligation is demonstrated natively by the number/text witness program (round trip,
        # integral printing, literal acceptance)
        from contracts.value_c import NUMBER_TEXT_WITNESS
        from pyvc.replay import run_witness
        res = run_witness(NUMBER_TEXT_WITNESS)
        pr.add_obligation(name, 'sat', 'z3', secs, detail=detail, function='value.value_string',
                          inputs={'native_witness': 'number/text round trip'} if res.get('violates') else None,
                          replay={'reproduced': bool(res.get('violates')), 'observed': res})
        return
    elif r == z3.unknown:
        from pyvc.solve import run_cvc5
        r5, out = run_cvc5(s.to_smt2(), 20000)
        if r5 in ('sat', 'unsat'):
            pr.add_obligation(name, r5, 'cvc5', time.time() - t0, detail=out[:300])
            return
        detail = s.reason_unknown()
    pr.add_obligation(name, str(r), 'z3', secs, detail=detail)


def run(tier):
    pr = PropertyRun('C13', tier)
    repo = Repo()
    value = repo.modules['value']
    parser = repo.modules['parser']
    cleanup_pat = ast.literal_eval(value.assigns['R_NUMBER_CLEANUP'].args[0])
    number_pat = ast.literal_eval(parser.assigns['_R_EXPR_NUMBER'].args[0])
    CLEAN = to_re(cleanup_pat)                 # what `\\.0*$` can match (a suffix of the text, because of `$`)
    LITERAL = group_re(number_pat, 1)          # the numeric-literal language of the parser
    s, p, m = z3.Strings('s p m')
    # -- the clean-up removes exactly the ".0" tail of an integral value -----------------------------------------
    check(pr, 'C13.cleanup.integral-repr-loses-exactly-its-dot-zero-tail',
          [z3.InRe(s, REPR_FIXED_INTEGRAL), s == z3.Concat(p, m), z3.InRe(m, CLEAN)],
          z3.And(z3.InRe(p, z3.Plus(D)), m == z3.StringVal('.0')))
    check(pr, 'C13.cleanup.integral-repr-has-a-removable-tail',
          [z3.InRe(s, REPR_FIXED_INTEGRAL)],
          z3.InRe(s, cat(z3.Plus(D), CLEAN)))
    check(pr, 'C13.cleanup.fractional-repr-is-left-alone',
          [z3.InRe(s, REPR_FIXED_FRACTIONAL), s == z3.Concat(p, m), z3.InRe(m, CLEAN)], z3.BoolVal(False))
    check(pr, 'C13.cleanup.exponent-repr-is-left-alone',
          [z3.InRe(s, REPR_EXPONENT), s == z3.Concat(p, m), z3.InRe(m, CLEAN)], z3.BoolVal(False))
    # -- what comes out has no dangling dot and is a numeric literal of the language (x >= 0) ----------------------
    PRINTED = z3.Union(z3.Plus(D), REPR_FIXED_FRACTIONAL, REPR_EXPONENT)
    check(pr, 'C13.printed-number-has-no-dangling-dot-or-zero-fraction',
          [z3.InRe(s, PRINTED), z3.Or(z3.SuffixOf(z3.StringVal('.'), s), z3.InRe(s, cat(z3.Plus(D), z3.Re('.'), z3.Plus(z3.Re('0')))))],
          z3.BoolVal(False))
    check(pr, 'C13.printed-number-is-entirely-a-numeric-literal', [z3.InRe(s, PRINTED)], z3.InRe(s, LITERAL))
    # vacuity guard: a literal regex without the exponent sign must be refuted
    guard = z3.Solver()
    guard.set('timeout', 20000)
    bad_literal = cat(z3.Plus(D), z3.Option(cat(z3.Re('.'), z3.Star(D))), z3.Option(cat(z3.Re('e'), z3.Plus(D))))
    guard.add(z3.InRe(s, PRINTED), z3.Not(z3.InRe(s, bad_literal)))
    if guard.check() != z3.sat:
        pr.errors.append('vacuity guard: a literal language without the exponent sign was not refuted')
    # -- the code: value_string's number arms, the two number parsers ---------------------------------------------
    run_contracts(pr, [VALUE_STRING_IMPL] + [c for c in MATHLIB if c.script_name in ('numberParseFloat', 'numberParseInt')], tier)
    pr.assumptions += [
        'ASSUMED, not provable here: float.__repr__ of a finite double x >= 0 lies in the grammar D+ "." D+ | D ("." D+)? "e" [+-] D D+ (fraction without trailing zeros except the single form ".0"; a leading "-" for x < 0) and float(repr(x)) == x — properties of CPython dtoa, a dependency',
        'int(str, radix) and float(str) accept/reject as CPython does (uninterpreted PARSE_* functions); "returns null rather than a non-finite value" is proved as: on every path value_parse_number returns None when float() yields nan/inf or raises ValueError',
        'the regex-language obligations hold for all strings (z3 regex theory, cvc5 for unknowns); anchors: `$` is treated as end of text (no trailing newline in a repr)',
    ]
    return pr
