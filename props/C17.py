"""C17 — includes resolve relative to the including file and run in global scope."""
from pyvc.report import PropertyRun
from pyvc.replay import run_witness
from contracts.options_c import URL_FILE_RELATIVE_IMPL
from contracts.runtime_c import EXECUTE_SCRIPT_HELPER
from .common import run_contracts, run_contracts_sel
from .runtime_common import RUNTIME_ASSUMPTIONS

INCLUDE_WITNESS = """
from bare_script import parse_script, execute_script
from bare_script.runtime import BareScriptRuntimeError
from bare_script.parser import BareScriptParserError
from bare_script.options import url_file_relative
from functools import partial
bad = []
files = {
    'dir/main.bare': "include 'sub/a.bare'\\ninclude 'b.bare'\\nreturn arrayNew(aa, bb, cc)\\n",
    'dir/sub/a.bare': "include 'c.bare'\\naa = 'a'\\nreturn\\naa = 'not reached'\\n",
    'dir/sub/c.bare': "cc = 'c'\\n",
    'dir/b.bare': "bb = 'b'\\n",
    'dir/two.bare': "include 'sub/c.bare'\\nmarker = 1\\ninclude 'b.bare'\\nreturn arrayNew(bb, cc)\\n",
    'sys/lib.bare': "lib = 1\\n",
    'dir/broken.bare': 'a = (\\n',
}
fetched = []
def fetch(req):
    fetched.append(req['url'])
    return files.get(req['url'])
def options(**kw):
    o = {'fetchFn': fetch, 'globals': {}, 'urlFn': partial(url_file_relative, 'dir/main.bare'), 'systemPrefix': 'sys/x'}
    o.update(kw)
    return o
def attempt(what, fn):
    del fetched[:]
    try:
        fn()
    except Exception as exc:     # any escape the scenario itself does not expect is a finding of the scenario
        bad.append({'what': what, 'observed': 'EXC ' + type(exc).__name__ + ': ' + str(exc)[:200], 'fetched': list(fetched)})

def nested():
    opts = options()
    got = execute_script(parse_script(files['dir/main.bare']), opts)
    if got != ['a', 'b', 'c'] or fetched != ['dir/sub/a.bare', 'dir/sub/c.bare', 'dir/b.bare']:
        bad.append({'what': 'relative resolution / order / return ends only the included script', 'result': repr(got), 'fetched': list(fetched)})
    if opts['urlFn']('x.bare') != 'dir/x.bare':
        bad.append({'what': "the includer's own urlFn changed", 'observed': opts['urlFn']('x.bare')})
attempt('nested relative includes', nested)

def after_statement():
    got = execute_script(parse_script(files['dir/two.bare']), options())
    if got != ['b', 'c'] or fetched != ['dir/sub/c.bare', 'dir/b.bare']:
        bad.append({'what': 'an include after an include from another directory still resolves against the includer', 'result': repr(got), 'fetched': list(fetched)})
attempt('include, statement, include', after_statement)

def system():
    execute_script(parse_script('include <lib.bare>\\n'), options())
    if fetched != ['sys/lib.bare']:
        bad.append({'what': 'system include resolves against systemPrefix', 'fetched': list(fetched)})
attempt('system include', system)

def missing():
    try:
        execute_script(parse_script("include 'missing.bare'\\n"), options())
        bad.append({'what': 'missing include did not fail'})
    except BareScriptRuntimeError as exc:
        if 'dir/missing.bare' not in str(exc):
            bad.append({'what': 'error does not name the resolved location', 'observed': str(exc)})
attempt('missing include', missing)

def broken():
    try:
        execute_script(parse_script("include 'broken.bare'\\n"), options())
        bad.append({'what': 'broken include did not fail'})
    except BareScriptParserError as exc:
        if 'dir/broken.bare' not in str(exc):
            bad.append({'what': 'parser error does not name the include', 'observed': str(exc)})
attempt('broken include', broken)

def in_function():
    g3 = {}
    got = execute_script(parse_script("function load(bb):\\n    include 'b.bare'\\n    return bb\\nendfunction\\nreturn arrayNew(load('arg'), bb)\\n"),
                         options(globals=g3))
    if got != ['arg', 'b'] or g3.get('bb') != 'b':
        bad.append({'what': "an include inside a function must assign globals, not the call's locals", 'result': repr(got), 'globals_bb': g3.get('bb')})
attempt('include inside a function', in_function)

def budget():
    o2 = {'fetchFn': lambda req: 'a = 1\\nb = 2\\nc = 3\\n', 'globals': {}, 'maxStatements': 4}
    try:
        execute_script(parse_script("include 'inc.bare'\\nd = 4\\n"), o2)
        bad.append({'what': 'included statements are not counted against maxStatements', 'count': o2.get('statementCount')})
    except BareScriptRuntimeError:
        pass
attempt('statement budget across an include (C09)', budget)

def budget_exact():
    # two adjacent include lines (one include statement with two includes), one of them nested: every started statement
    # of every included script is charged exactly once, under every limit
    srcs = {'a.bare': "include 'c.bare'\\na = 1\\na2 = 2\\n", 'b.bare': "b = 1\\n", 'c.bare': "c = 1\\nc2 = 2\\n"}
    main = "include 'a.bare'\\ninclude 'b.bare'\\nd = 4\\n"
    total = 1 + (1 + 2 + 2) + 1 + 1      # include statement, a.bare (its include statement, c.bare, two assignments), b.bare, d
    def run(limit):
        o3 = {'fetchFn': lambda req: srcs.get(req['url'].split('/')[-1]), 'globals': {}, 'maxStatements': limit}
        try:
            execute_script(parse_script(main), o3)
            return 'completed', o3.get('statementCount')
        except BareScriptRuntimeError as exc:
            return 'aborted', str(exc)
    for limit in (0, total, total + 1):
        got = run(limit)
        if got != ('completed', total):
            bad.append({'what': 'statements of adjacent includes are each counted once', 'limit': limit, 'expected': ['completed', total], 'observed': list(got)})
    for limit in range(1, total):
        got = run(limit)
        if got[0] != 'aborted' or 'Exceeded maximum script statements' not in got[1]:
            bad.append({'what': 'a run of %d statements must be aborted under a smaller limit' % total, 'limit': limit, 'observed': list(got)})
attempt('exact statement count across adjacent and nested includes (C09)', budget_exact)
result = {'violates': bool(bad), 'counterexamples': bad[:3]}
"""


def include_bounded(pr, prop):
    res = run_witness(INCLUDE_WITNESS)
    pr.bounded.append('include arm in the quick tier: bounded native stand-in (a fixed include tree: nested relative includes, '
                      'system include, include inside a function, missing and broken files, budget across an include, exact count across adjacent and nested includes under every limit); the symbolic run of the arm '
                      'leaves 488 of 1693 obligations undecided and is therefore outside both tiers (not proved)')
    if res.get('violates'):
        pr.failures.append({'obligation': f'{prop}.bounded.include-semantics', 'function': 'runtime._execute_script_helper#stmt-include',
                            'path': '', 'inputs': {'native_witness': 'include tree'},
                            'replay': {'reproduced': True, 'observed': res.get('counterexamples')},
                            'solver': {'backend': 'native-bounded', 'verdict': 'counterexample', 'output': ''}})
    elif 'error' in res:
        pr.errors.append('include witness failed to run: ' + str(res['error'])[-300:])


def run(tier):
    pr = PropertyRun('C17', tier, level='other')
    run_contracts(pr, [URL_FILE_RELATIVE_IMPL], tier)
    run_contracts_sel(pr, [EXECUTE_SCRIPT_HELPER], tier, 'C17')
    include_bounded(pr, 'C17')
    pr.explanation = ('Proved: url_file_relative implements the four resolution cases on every path. NOT proved: the include arm of '
                      'the statement loop (resolve, fetch exactly once with the resolved location, parse, nested run in global scope '
                      'under a copy of the options with a re-based urlFn, errors naming the location) — contracts and step specs are '
                      'written and 1199 of its 1693 obligations discharge, the rest time out; a bounded native stand-in decides '
                      'that arm in both tiers. bare._fetch_include (package-resource I/O) is outside the subset and unverified.')
    pr.assumptions += RUNTIME_ASSUMPTIONS + [
        'os.path.join / os.path.dirname / pathlib.Path and whether a string is a URL (regex ^[a-z]+:) are uninterpreted',
        'adjacent include statements merging in parse_script is covered by the C06 harness only as far as exception containment',
    ]
    return pr
