"""./check entry point."""
import argparse
import importlib
import json
import os
import sys

sys.path.insert(0, os.path.dirname(os.path.dirname(os.path.abspath(__file__))))


def main():
    ap = argparse.ArgumentParser()
    ap.add_argument('prop')
    ap.add_argument('--tier', default=os.environ.get('VERIF_TIER', 'quick'))
    ap.add_argument('--replay')
    a = ap.parse_args()
    if a.replay:
        from props.replay_cmd import replay_file
        sys.exit(replay_file(a.replay))
    try:
        mod = importlib.import_module(f'props.{a.prop}')
        if a.tier == 'thorough':
            os.environ.setdefault('PYVC_MAX_PATHS', '12000')
            os.environ.setdefault('PYVC_JOB_BUDGET_S', '3600')
        pr = mod.run(a.tier)
        # the evidence level is the level claimed in MANIFEST.json for this property
        try:
            man = json.load(open(os.path.join(os.path.dirname(os.path.dirname(os.path.abspath(__file__))), 'MANIFEST.json')))
            for c in man.get('checks', []):
                if c['property_id'] == a.prop:
                    pr.force_level = c['level_claimed']['category']
        except (OSError, ValueError, KeyError):
            pass
        code = pr.finish(checker_cmd=f'./check {a.prop} --tier {a.tier}')
    except Exception as e:  # a crash of the checker is never a violation
        import traceback
        traceback.print_exc()
        print(f'CHECKER-ERROR property={a.prop} {type(e).__name__}: {e}')
        code = 3
    sys.exit(code)


if __name__ == '__main__':
    main()
