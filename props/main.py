"""./check entry point."""
import argparse
import importlib
import json
import os
import sys

sys.path.insert(0, os.path.dirname(os.path.dirname(os.path.abspath(__file__))))


def main():
    ap = argparse.ArgumentParser()
    ap.add_argument('prop')
    ap.add_argument('--tier', default=os.environ.get('VERIF_TIER', 'quick'))
    ap.add_argument('--replay')
    a = ap.parse_args()
    if a.replay:
        from props.replay_cmd import replay_file
        sys.exit(replay_file(a.replay))
    try:
        mod = importlib.import_module(f'props.{a.prop}')
        pr = mod.run(a.tier)
        code = pr.finish(checker_cmd=f'./check {a.prop} --tier {a.tier}')
    except Exception as e:  # a crash of the checker is never a violation
        import traceback
        traceback.print_exc()
        print(f'CHECKER-ERROR property={a.prop} {type(e).__name__}: {e}')
        code = 3
    sys.exit(code)


if __name__ == '__main__':
    main()
