"""C19 — data functions implement their relational meaning (partial)."""
from pyvc.report import PropertyRun
from contracts.data_c import FILTER_DATA, ADD_CALCULATED_FIELD, SORT_DATA_FN, TOP_DATA
from contracts.value_c import VALUE_PARSE_DATETIME
from .common import run_contracts
from .runtime_common import RUNTIME_ASSUMPTIONS


def run(tier):
    pr = PropertyRun('C19', tier, level='other')
    run_contracts(pr, [FILTER_DATA, ADD_CALCULATED_FIELD, SORT_DATA_FN, TOP_DATA, VALUE_PARSE_DATETIME], tier)
    # join_data is not under contract: bounded native stand-in (the data witness program also re-runs the filter and
    # calculated-field scenarios natively)
    from contracts.data_c import DATA_WITNESS
    from pyvc.replay import run_witness
    res = run_witness(DATA_WITNESS, timeout=300)
    pr.bounded.append('data.join_data: bounded native stand-in — 20 pairs of tables whose field names collide in every way (a, a2, a3, b), '
                      'checked structurally: left fields never overwritten, every right value present under one stable non-left name, '
                      'row count and order')
    if res.get('violates'):
        cx = res['counterexamples'][0]
        pr.failures.append({'obligation': 'C19.bounded.' + str(cx.get('what', 'data-witness')).replace(' ', '-'), 'function': 'data.join_data',
                            'path': '', 'inputs': cx, 'replay': {'reproduced': True, 'observed': res['counterexamples']},
                            'solver': {'backend': 'native-bounded', 'verdict': 'counterexample', 'output': ''}})
    elif 'error' in res:
        pr.errors.append('data witness failed to run: ' + str(res['error'])[-300:])
    # CSV typing is not under contract: bounded native round trip
    import os
    with open(os.path.join(os.path.dirname(os.path.dirname(os.path.abspath(__file__))), 'native', 'witness', 'csv_witness.py'), encoding='utf-8') as fh:
        csv_res = run_witness(fh.read(), timeout=300)
    pr.bounded.append('data.validate_data / dataParseCSV: bounded native stand-in — 256 typed tables (number, boolean, datetime, string columns of '
                      'three rows, a null written as the literal null at every position of every column) written as CSV and read back with the '
                      'same typed values; date-like text with an out-of-range day stays a string')
    if csv_res.get('violates'):
        cx = csv_res['counterexamples'][0]
        pr.failures.append({'obligation': 'C19.bounded.csv-typing-round-trip', 'function': 'data.validate_data',
                            'path': '', 'inputs': cx, 'replay': {'reproduced': True, 'observed': csv_res['counterexamples']},
                            'solver': {'backend': 'native-bounded', 'verdict': 'counterexample', 'output': ''}})
    elif 'error' in csv_res:
        pr.errors.append('csv witness failed to run: ' + str(csv_res['error'])[-300:])
    pr.bounded.append('data.top_data: loops over the table are unrolled twice over symbolic rows (bounded, k=2); proved on that bound: no '
                      'exception for a valid count in either spelling, result is a fresh list')
    pr.explanation = ('Proved on the real code: filter_data keeps exactly the rows whose expression value is truthy, in order '
                      '(inductive invariant with ghost per-row verdicts), evaluating the expression once per row with the row as '
                      'locals; add_calculated_field sets the expression value on every row and returns the same array; the row '
                      'comparator of dataSort is the lexicographic combination of +-CMP over the sort keys (inductive), so with the '
                      'assumed list.sort contract and the CMP lemma layer (C11) dataSort is a stable ordering; date-like invalid text '
                      'parses to null (C16). Bounded: top_data. NOT under contract: join_data, aggregate_data, validate_data, CSV.')
    pr.assumptions += RUNTIME_ASSUMPTIONS + [
        'script functions called from a row expression do not modify the data array being walked (the iterated list is assumed unmodified across callee havocs)',
        'expressions returned by parse_expression are evaluated under the evaluate_expression contract instantiated for them (meta-argument); data._import_evaluate_expression returns runtime.evaluate_expression',
        'rows are objects distinct from the options and globals objects',
    ]
    pr.not_proved += ['data.join_data (bounded native stand-in only), data.aggregate_data: not under contract; data.validate_data, library._data_parse_csv: bounded native CSV round trip only',
                      'data.top_data: category bucketing semantics (first n rows per category) not under contract']
    return pr
