"""Shared: the runtime contracts (runtime.py functions under contract) used by C03, C04, C05, C08, C09, C17."""
from contracts.runtime_c import (EVALUATE_EXPRESSION, EXECUTE_SCRIPT_HELPER, SCRIPT_FUNCTION, EXECUTE_SCRIPT)

RUNTIME = [EVALUATE_EXPRESSION, EXECUTE_SCRIPT_HELPER, SCRIPT_FUNCTION, EXECUTE_SCRIPT]

RUNTIME_ASSUMPTIONS = [
    'the script model lives in a frozen heap region (references below a ghost bound); host and library functions are assumed not to modify model objects (C08 host assumption)',
    'host functions (globals supplied by the embedding application, fetchFn) may have arbitrary effects on the unfrozen heap, return any value and raise any subclass of Exception; they keep the options object well formed and never lower statementCount',
    'logFn and urlFn are called outside any handler and are assumed not to raise (host assumption)',
    'BaseException subclasses that are not Exception (SystemExit, KeyboardInterrupt), RecursionError and MemoryError are outside the model',
    'sub-evaluations are used by contract (modular): each obligation is a one-step rule; lifting the step rules to whole programs is structural induction over the model (trusted meta-theorem, DESIGN.md section 6)',
    'a script returned by parse_script is run under the same helper contract instantiated with its own frozen region (meta-argument)',
]
