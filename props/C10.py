"""C10 — source layout does not change the parsed program."""
import ast
from pyvc.report import PropertyRun
from pyvc.source import Repo
from contracts.parse_script_c import PARSE_SCRIPT_BODY
from .common import run_contracts_sel
from .C06 import PARSER_ASSUMPTIONS


def stateless_obligations(pr):
    """parse_script / parse_expression keep no state between calls: no function of parser.py stores to a module-level
    object (frame analysis over every store site) and none reads a mutable module-level object."""
    m = Repo().modules['parser']
    module_names = set(m.assigns) | set(m.functions) | set(m.classes)
    for fname, fn in sorted(m.functions.items()):
        local = {a.arg for a in fn.args.args}
        for node in ast.walk(fn):
            if isinstance(node, (ast.Assign, ast.AugAssign, ast.For, ast.comprehension, ast.ExceptHandler, ast.NamedExpr)):
                from pyvc.source import assigned_names
                local |= assigned_names([node]) if not isinstance(node, (ast.comprehension, ast.ExceptHandler)) else set()
        bad = []
        for node in ast.walk(fn):
            if isinstance(node, (ast.Global, ast.Nonlocal)):
                bad.append(f'line {node.lineno}: global/nonlocal')
            targets = []
            if isinstance(node, ast.Assign):
                targets = node.targets
            elif isinstance(node, (ast.AugAssign, ast.Delete)):
                targets = [node.target] if isinstance(node, ast.AugAssign) else node.targets
            for t in targets:
                base = t
                while isinstance(base, (ast.Subscript, ast.Attribute)):
                    base = base.value
                if isinstance(base, ast.Name) and base.id not in local and base.id in module_names and base is not t:
                    bad.append(f'line {t.lineno}: store into module-level {base.id}')
            if isinstance(node, ast.Call) and isinstance(node.func, ast.Attribute) and \
                    node.func.attr in ('append', 'extend', 'pop', 'clear', 'update', 'add', 'sort', 'insert', 'remove', 'setdefault'):
                base = node.func.value
                while isinstance(base, (ast.Subscript, ast.Attribute)):
                    base = base.value
                if isinstance(base, ast.Name) and base.id not in local and base.id in module_names:
                    bad.append(f'line {node.lineno}: mutating call on module-level {base.id}')
        pr.add_obligation(f'C10.stateless.{fname}-stores-only-to-its-own-objects', 'sat' if bad else 'unsat', 'syntactic-frame', 0.0,
                          detail='; '.join(bad), function=f'parser.{fname}',
                          replay={'reproduced': bool(bad), 'observed': {'stores': bad}})


def run(tier):
    pr = PropertyRun('C10', tier, level='other')
    run_contracts_sel(pr, [PARSE_SCRIPT_BODY], tier, 'C10')
    stateless_obligations(pr)
    pr.explanation = ('Proved: a comment or blank line takes the early `continue` and changes neither the parser state nor the '
                      'heap (also inside a continued line); no function of parser.py stores to or mutates a module-level object '
                      '(determinism and statelessness). Not decided by this family: LF/CRLF, chunking, indentation/trailing '
                      'whitespace and continuation-point invariance are statements about regex transducers.')
    pr.assumptions += PARSER_ASSUMPTIONS + [
        'LF vs CRLF, chunk boundaries, indentation/trailing whitespace and breaking a line at any inter-token gap are properties of what the regexes extract from a padded line (group extraction); no contract within reach expresses them — not claimed',
    ]
    pr.not_proved.append('layout invariance under CRLF/chunking/indentation/continuation placement: regex transducer behaviour, outside this technique (see DESIGN.md section 6)')
    return pr
