"""C10 — source layout does not change the parsed program."""
import ast
from pyvc.report import PropertyRun
from pyvc.source import Repo
from contracts.parse_script_c import PARSE_SCRIPT_BODY
from .common import run_contracts_sel
from .C06 import PARSER_ASSUMPTIONS


def stateless_obligations(pr):
    """parse_script / parse_expression keep no state between calls: no function of parser.py stores to a module-level
    object (frame analysis over every store site) and none reads a mutable module-level object."""
    m = Repo().modules['parser']
    module_names = set(m.assigns) | set(m.functions) | set(m.classes)
    for fname, fn in sorted(m.functions.items()):
        local = {a.arg for a in fn.args.args}
        for node in ast.walk(fn):
            if isinstance(node, (ast.Assign, ast.AugAssign, ast.For, ast.comprehension, ast.ExceptHandler, ast.NamedExpr)):
                from pyvc.source import assigned_names
                local |= assigned_names([node]) if not isinstance(node, (ast.comprehension, ast.ExceptHandler)) else set()
        bad = []
        for node in ast.walk(fn):
            if isinstance(node, (ast.Global, ast.Nonlocal)):
                bad.append(f'line {node.lineno}: global/nonlocal')
            targets = []
            if isinstance(node, ast.Assign):
                targets = node.targets
            elif isinstance(node, (ast.AugAssign, ast.Delete)):
                targets = [node.target] if isinstance(node, ast.AugAssign) else node.targets
            for t in targets:
                base = t
                while isinstance(base, (ast.Subscript, ast.Attribute)):
                    base = base.value
                if isinstance(base, ast.Name) and base.id not in local and base.id in module_names and base is not t:
                    bad.append(f'line {t.lineno}: store into module-level {base.id}')
            if isinstance(node, ast.Call) and isinstance(node.func, ast.Attribute) and \
                    node.func.attr in ('append', 'extend', 'pop', 'clear', 'update', 'add', 'sort', 'insert', 'remove', 'setdefault'):
                base = node.func.value
                while isinstance(base, (ast.Subscript, ast.Attribute)):
                    base = base.value
                if isinstance(base, ast.Name) and base.id not in local and base.id in module_names:
                    bad.append(f'line {node.lineno}: mutating call on module-level {base.id}')
        pr.add_obligation(f'C10.stateless.{fname}-stores-only-to-its-own-objects', 'sat' if bad else 'unsat', 'syntactic-frame', 0.0,
                          detail='; '.join(bad), function=f'parser.{fname}',
                          replay={'reproduced': bool(bad), 'observed': {'stores': bad}})


def layout_regex_obligations(pr):
    """regex-language obligations (all strings) on the layout regexes, each a necessary condition of the property; a
    failing one is replayed natively on the line it describes"""
    import os
    import time
    import z3
    from pyvc.relang import to_re, group_re, SPACE, Untranslatable
    from pyvc.replay import run_witness
    m = Repo().modules['parser']
    ws = z3.Star(SPACE)
    x = z3.String('x')
    anyc = z3.Star(z3.Intersect(z3.AllChar(z3.ReSort(z3.StringSort())), z3.Complement(z3.Re('\n'))))

    def pat(name):
        return ast.literal_eval(m.assigns[name].args[0])

    def check(name, facts, builder, fn):
        sv = z3.Solver()
        sv.set('timeout', 20000)
        sv.add(*facts)
        t0 = time.time()
        r = sv.check()
        secs = time.time() - t0
        if r == z3.unsat:
            pr.add_obligation(name, 'unsat', 'z3', secs, function=fn)
        elif r == z3.sat:
            line = sv.model()[x].as_string() if sv.model()[x] is not None else ''
            import re as _re
            line = _re.sub(r'\\u\{([0-9a-fA-F]+)\}', lambda mm: chr(int(mm.group(1), 16)), line)
            with_line, without = builder(line)
            code = ('from bare_script.parser import parse_script, BareScriptParserError\n'
                    'def P(t):\n    try:\n        return parse_script(t)\n    except BareScriptParserError as exc:\n        return "ERROR " + str(exc).splitlines()[0]\n'
                    f'a = P({with_line!r})\nb = P({without!r})\n'
                    'result = {"violates": a != b, "with_the_line": a, "without": b}\n')
            res = run_witness(code)
            pr.add_obligation(name, 'sat', 'z3', secs, function=fn, detail=f'line {line!r}', inputs={'text': with_line, 'reference': without},
                              replay={'reproduced': bool(res.get('violates')), 'observed': res})
        else:
            pr.add_obligation(name, 'unknown', 'z3', secs, detail=sv.reason_unknown(), function=fn)
    try:
        COMMENT = to_re(pat('_R_SCRIPT_COMMENT'))
        fn = 'parser._R_SCRIPT_COMMENT'
        around = lambda line: ('a = 1\n' + line + '\nb = 2\n', 'a = 1\nb = 2\n')
        check('C10.comment.whitespace-only-lines-are-skipped', [z3.InRe(x, ws), z3.Not(z3.Contains(x, z3.StringVal('\n'))), z3.Not(z3.InRe(x, COMMENT))], around, fn)
        check('C10.comment.indented-comment-lines-are-skipped',
              [z3.InRe(x, z3.Concat(ws, z3.Re('#'), anyc)), z3.Not(z3.Contains(x, z3.StringVal('\n'))), z3.Not(z3.InRe(x, COMMENT))], around, fn)
        check('C10.comment.nothing-but-blank-and-comment-lines-is-skipped',
              [z3.InRe(x, COMMENT), z3.Not(z3.InRe(x, z3.Union(ws, z3.Concat(ws, z3.Re('#'), z3.Full(z3.ReSort(z3.StringSort()))))))],
              lambda line: ('a = 1\n' + line + '\nb = 2\n', 'a = 1\nb = 2\n'), fn)
    except (Untranslatable, KeyError, ValueError) as e:
        pr.add_obligation('C10.comment.pattern-in-the-translated-dialect', 'unknown', 'syntactic', 0.0, detail=str(e))
    try:
        # `return` takes an optional expression: a blank captured as that expression turns "return" plus trailing blanks
        # into a syntax error
        EXPR = group_re(pat('_R_SCRIPT_RETURN'), 'expr')
        check('C10.return.the-optional-expression-group-is-never-blank',
              [z3.InRe(x, EXPR), z3.InRe(x, z3.Plus(z3.Union(z3.Re(' '), z3.Re('\t'))))],
              lambda blank: ('return ' + blank + '\n', 'return\n'), 'parser._R_SCRIPT_RETURN')
    except (Untranslatable, KeyError, ValueError) as e:
        pr.add_obligation('C10.return.pattern-in-the-translated-dialect', 'unknown', 'syntactic', 0.0, detail=str(e))


def layout_bounded(pr, tier):
    """bounded stand-in (never counted as proved): a fixed corpus of programs covering every statement form, each re-parsed
    under CRLF, every chunking at line boundaries, blank/comment/whitespace-only lines inserted at every position (also
    inside continued lines), indentation and trailing whitespace on every line, and a backslash break at every space
    outside string literals"""
    import os
    from pyvc.replay import run_witness
    here = os.path.dirname(os.path.dirname(os.path.abspath(__file__)))
    with open(os.path.join(here, 'native', 'witness', 'layout_witness.py'), encoding='utf-8') as fh:
        code = fh.read()
    res = run_witness(code, timeout=600)
    pr.bounded.append(f'layout invariance: bounded native check, {res.get("variants_checked")} layout variants of 12 corpus programs '
                      '(CRLF, chunking, inserted blank/comment lines, indentation, trailing blanks, backslash breaks at every space)')
    if res.get('violates'):
        cx = res['counterexamples'][0]
        pr.failures.append({'obligation': 'C10.bounded.layout-variant-parses-to-the-same-model', 'function': 'parser.parse_script', 'path': '',
                            'inputs': {'program': cx.get('program'), 'layout': cx.get('layout', cx.get('what')), 'variant': cx.get('variant')},
                            'replay': {'reproduced': True, 'observed': cx},
                            'solver': {'backend': 'native-bounded', 'verdict': 'counterexample', 'output': ''}})
    elif 'error' in res:
        pr.errors.append('layout witness failed to run: ' + str(res['error'])[-400:])


def run(tier):
    pr = PropertyRun('C10', tier, level='other')
    run_contracts_sel(pr, [PARSE_SCRIPT_BODY], tier, 'C10')
    stateless_obligations(pr)
    layout_regex_obligations(pr)
    layout_bounded(pr, tier)
    pr.explanation = ('Proved: a comment or blank line takes the early `continue` and changes neither the parser state nor the '
                      'heap (also inside a continued line); no function of parser.py stores to or mutates a module-level object '
                      '(determinism and statelessness). Regex-language obligations (all strings): whitespace-only and indented comment lines are '
                      'skipped and nothing else is; the optional expression of `return` is never a blank. Not decided by this family: '
                      'LF/CRLF, chunking, indentation/trailing whitespace and continuation-point invariance in general are statements '
                      'about regex transducers; a bounded native layout check (about 1000 variants) stands in, labelled bounded.')
    pr.assumptions += PARSER_ASSUMPTIONS + [
        'LF vs CRLF, chunk boundaries, indentation/trailing whitespace and breaking a line at any inter-token gap are properties of what the regexes extract from a padded line (group extraction); no contract within reach expresses them — not claimed',
    ]
    pr.not_proved.append('layout invariance under CRLF/chunking/indentation/continuation placement: regex transducer behaviour, outside this technique (see DESIGN.md section 6)')
    return pr
