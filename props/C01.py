"""C01 — structured control flow runs with its source-level meaning."""
from pyvc.report import PropertyRun
from contracts.parse_script_c import PARSE_SCRIPT_BODY
from .common import run_contracts_sel
from .C06 import PARSER_ASSUMPTIONS
from .runtime_common import RUNTIME, RUNTIME_ASSUMPTIONS


def run(tier):
    pr = PropertyRun('C01', tier)
    # layer 1: what each construct is lowered to (real parser code, per iteration)
    run_contracts_sel(pr, [PARSE_SCRIPT_BODY], tier, 'C01')
    # layer 2: the jump machine the lowered code runs on (C08 step obligations of the statement loop)
    run_contracts_sel(pr, RUNTIME, tier, 'C01', extra=('C08',))
    pr.assumptions += PARSER_ASSUMPTIONS + RUNTIME_ASSUMPTIONS + [
        'composition: that the lowering schema run on the jump machine equals the big-step reading of the source is the soundness argument of the Hoare while rule (structural induction over programs, fixpoint induction over iterations); it is stated, not discharged',
    ]
    return pr
